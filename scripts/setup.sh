#!/bin/sh
# Builds the driver and warms the build cache for every monitor (offline).
set -e
cd /verif/harness
export GOFLAGS=-mod=mod GOPROXY=off GOSUMDB=off GOTOOLCHAIN=local
mkdir -p /verif/.build /verif/evidence /verif/replays
go build -o /verif/.build/check ./cmd/check
for p in props/*/; do
  go test -c -tags verif -vet=off -o /dev/null ./$p
done
for p in $(cat /verif/scripts/race_pkgs.txt 2>/dev/null); do
  go test -c -race -tags verif -vet=off -o /dev/null ./props/$p
done
for c in cmd/*/; do go build -tags verif -o /dev/null ./$c; done
echo setup ok
