#!/bin/bash
# usage: mut.sh <patch.diff> <id> [<id>...]   -- apply a seeded change to /repo, run the quick checks, undo it.
# Also runs the pinned suite with the patch first when SUITE=1.
export GOFLAGS=-mod=mod GOPROXY=off GOSUMDB=off GOTOOLCHAIN=local
patch=$1; shift
if [ -n "$(git -C /repo status --porcelain)" ]; then echo "/repo is dirty"; exit 3; fi
git -C /repo apply "$patch" || { echo "patch does not apply"; exit 3; }
trap 'git -C /repo checkout -- . ; git -C /repo clean -fdq' EXIT
if [ "$SUITE" = 1 ]; then /verif/scripts/suite.sh || echo "SUITE FAILS WITH PATCH"; fi
cd /verif/harness
for id in "$@"; do
  out=$(go run ./cmd/check -id $id -tier ${TIER:-quick} 2>&1); rc=$?
  echo "== $id rc=$rc"; echo "$out" | grep -E 'VIOLATION|KNOWN|key=|INCONCLUSIVE|nothing decided|build failed' | head -8
done
