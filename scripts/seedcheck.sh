#!/bin/bash
# usage: seedcheck.sh <seed-dir> <scratch-worktree>  -- confirm a seeded change: patch applies, suite passes with it,
# the demonstration fails with it and passes without it. Leaves the worktree clean.
export GOFLAGS=-mod=mod GOPROXY=off GOSUMDB=off GOTOOLCHAIN=local
d=$1; wt=$2
git -C $wt checkout -q -- . ; git -C $wt clean -fdq
demo=$(ls $d/demo*_test.go 2>/dev/null | head -1)
[ -z "$demo" ] && { echo "no demo test in $d"; exit 2; }
pkgline=$(grep -m1 '^package ' $demo | awk '{print $2}')
case $pkgline in
  eventlogger|eventlogger_test) sub=. ;;
  encrypt|encrypt_test) sub=filters/encrypt ;;
  gated|gated_test) sub=filters/gated ;;
  cloudevents|cloudevents_test) sub=formatter_filters/cloudevents ;;
  writer|writer_test) sub=sinks/writer ;;
  channel|channel_test) sub=sinks/channel ;;
  *) echo "unknown package $pkgline"; exit 2 ;;
esac
race=""; grep -qi -- '-race' $d/README.md && race="-race"
rundemo() { (cd $wt/$sub && go test $race -vet=off -count=1 -run "${DEMO_RUN:-Demo|demo|ZZ|Seed}" . 2>&1 | tail -15); }
cp $demo $wt/$sub/zz_demo_test.go
echo "--- demo WITHOUT change (must pass)"; out=$(rundemo); echo "$out" | tail -3; echo "$out" | grep -q '^ok' ; clean_ok=$?
git -C $wt apply $d/patch.diff || { echo "PATCH DOES NOT APPLY"; exit 2; }
echo "--- demo WITH change (must fail)"; out=$(rundemo); echo "$out" | tail -4; echo "$out" | grep -q '^FAIL\|^--- FAIL\|panic:' ; mut_fail=$?
rm -f $wt/$sub/zz_demo_test.go
echo "--- suite WITH change (must pass)"; REPO=$wt /verif/scripts/suite.sh; suite=$?
git -C $wt checkout -q -- . ; git -C $wt clean -fdq
echo "RESULT clean_demo_pass=$((1-clean_ok)) mutant_demo_fails=$((1-mut_fail)) suite_pass=$((1-suite)) race=$race sub=$sub"
