#!/bin/bash
# usage: mutwt.sh <patch.diff> <scratch-worktree> <id> [<id>...]
# development aid: apply a seeded change to a scratch worktree (not /repo) and run the quick checks against it.
export GOFLAGS=-mod=mod GOPROXY=off GOSUMDB=off GOTOOLCHAIN=local
patch=$1; wt=$2; shift; shift
git -C $wt checkout -q -- . ; git -C $wt clean -fdq
git -C $wt apply "$patch" || { echo "patch does not apply"; exit 3; }
cd /verif/harness
for id in "$@"; do
  out=$(VERIF_REPO=$wt /verif/.build/check -id $id -tier ${TIER:-quick} 2>&1); rc=$?
  echo "== $id rc=$rc $(echo "$out" | grep -c INCONCLUSIVE) inconclusive"; echo "$out" | grep -E 'VIOLATION|KNOWN|key=|nothing decided|build failed' | cut -c1-300 | head -6
done
git -C $wt checkout -q -- . ; git -C $wt clean -fdq
