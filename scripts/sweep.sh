#!/bin/sh
# usage (from a vp run snapshot or /verif): scripts/sweep.sh <tier> <seed> <id>...   -- runs checks with VERIF_ROOT=<this tree>
root=$(cd "$(dirname "$0")/.." && pwd)
tier=$1; seed=$2; shift; shift
export GOFLAGS=-mod=mod GOPROXY=off GOSUMDB=off GOTOOLCHAIN=local VERIF_ROOT=$root VERIF_SEED=$seed
cd $root/harness && mkdir -p $root/.build && go build -o $root/.build/check ./cmd/check || exit 2
rc=0
for id in "$@"; do
  $root/.build/check -id $id -tier $tier > $root/.build/sweep-$id-$tier-$seed.log 2>&1; r=$?
  echo "$id tier=$tier seed=$seed rc=$r $(head -1 $root/.build/sweep-$id-$tier-$seed.log)"
  grep -E "VIOLATION|KNOWN-FINDING|INCONCLUSIVE|key=" $root/.build/sweep-$id-$tier-$seed.log | cut -c1-300 | head -8
  [ $r -ne 0 ] && rc=1
done
exit $rc
