#!/bin/sh
# usage: scripts/sweep_seeds.sh <tier> "<seed> <seed> ..." <id>...  -- sweep.sh for several seeds; prints a summary line
here=$(cd "$(dirname "$0")" && pwd)
tier=$1; seeds=$2; shift; shift
rc=0
for s in $seeds; do
  $here/sweep.sh $tier $s "$@" || rc=1
done
echo "SWEEP-DONE tier=$tier seeds=[$seeds] rc=$rc"
exit $rc
