#!/opt/veriftools/pyvenv/bin/python
"""Validate MANIFEST.json and every evidence file against the schemas."""
import json, sys, glob, jsonschema
ok = True
m = json.load(open('/verif/MANIFEST.json'))
jsonschema.validate(m, json.load(open('/root/.vp/MANIFEST.schema.json')))
claimed = {c['property_id'] for c in m['checks']}
na = {c['property_id'] for c in m.get('not_applicable', [])}
allp = {json.loads(l)['id'] for l in open('/verif/properties.jsonl')}
if claimed | na != allp or claimed & na:
    print('manifest does not partition the properties:', sorted(allp - claimed - na), sorted(claimed & na)); ok = False
es = json.load(open('/root/.vp/EVIDENCE.schema.json'))
for c in m['checks']:
    f = c['evidence_file']
    try:
        ev = json.load(open(f)); jsonschema.validate(ev, es)
        assert ev['level'] == c['level_claimed']['category'], 'level mismatch'
        print('ok', f, ev['tier'], ev['coverage'].get('evaluations'), ev['coverage'].get('distinct_nontrivial'), 'viol', ev.get('violations'))
    except Exception as e:
        print('BAD', f, str(e)[:300]); ok = False
sys.exit(0 if ok else 1)
