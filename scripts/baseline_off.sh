#!/bin/bash
# Runs the repository's pinned test suite (both modules) with the verif guard OFF.
# Same command as /root/.vp/BASELINE.json "cmd", without depending on /w/out.
export GOFLAGS=-mod=mod GOPROXY=off GOSUMDB=off GOTOOLCHAIN=local
rc=0
for m in . ./filters/encrypt; do
  (cd /repo/$m && go test -mod=mod -json -vet=off -count=1 -timeout 25m ./...) || rc=1
done
exit $rc
