#!/bin/bash
# human-readable variant of baseline_off.sh
export GOFLAGS=-mod=mod GOPROXY=off GOSUMDB=off GOTOOLCHAIN=local
rc=0
for m in . ./filters/encrypt; do
  (cd ${REPO:-/repo}/$m && go test -mod=mod -vet=off -count=1 -timeout 25m ./... 2>&1 | grep -v '^ok\|no test files' ) && rc=1
done
echo "suite rc=$rc"
exit $rc
