#!/usr/bin/env python3
"""Copy confirmed seeded changes into /verif/seeded/<id>/<variant>/ with a meta.json each.
usage: assemble_seeded.py <seeds-root> <round> <seedcheck-log> <first-matrix-log> <final-matrix-log>
  round 1 -> variants a, b; round N>1 -> rNa, rNb.
  first-matrix-log: the checks as they were when the change arrived; final-matrix-log: the committed checks."""
import json, os, re, shutil, sys
root, rnd, sclog, mlog_first, mlog_final = sys.argv[1:6]
rootname = os.path.basename(os.path.normpath(root))

def seedcheck(path):
    ok, cur = {}, None
    for l in open(path, errors='replace'):
        m = re.match(r'===== (?:(\S*)/)?(C\d+)/(\w)\b', l)
        if m:
            # logs of several rounds may share a file: keep only headers of this root (or bare ones)
            if m.group(1) and os.path.basename(m.group(1)) != rootname:
                cur = None
            else:
                cur = (m.group(2), m.group(3))
            continue
        if l.startswith('RESULT') and cur:
            ok[cur] = l.strip()  # a rerun overrides
    return ok

R1_MISSED_AT_FIRST = {'C01/a', 'C01/b', 'C02/a', 'C02/b', 'C03/a', 'C03/b', 'C09/a', 'C10/a', 'C12/a', 'C12/b', 'C16/b'}

def matrix(path, keep_first=False):
    """keep_first: a log that was appended to over time - the first run against a change is the one that counts"""
    fired, cur, last, seen = {}, None, None, set()
    for l in open(path, errors='replace'):
        m = re.match(r'######## (\S*)/(C\d+)/(\w)/patch.diff', l)
        if m:
            cur = (m.group(2), m.group(3)) if os.path.basename(m.group(1)) == rootname else None
            if cur and keep_first and cur in seen:
                cur = None
            if cur:
                seen.add(cur)
                fired[cur] = {}
            continue
        m = re.match(r'== (C\d+) rc=(\d+)', l)
        if m and cur:
            last = m.group(1)
            fired[cur][last] = {'rc': int(m.group(2)), 'keys': []}
            continue
        m = re.match(r'\s+key=(\S+) occurrences=(\d+)', l)
        if m and cur and last:
            fired[cur][last]['keys'].append(m.group(1))
    return fired

def render(det):
    return {k: ('VIOLATION ' + ', '.join(x['keys']) if x['rc'] == 1 else ('silent' if x['rc'] == 0 else 'rc=%d (inconclusive)' % x['rc'])) for k, x in sorted(det.items())}

def needs(readme):
    """the seeding agent's own words on what the change needs to manifest"""
    m = re.search(r'^#+[^\n]*needs[^\n]*\n(.*?)(?=^#|\Z)', readme, re.S | re.M | re.I)
    if not m:
        m = re.search(r'(?:^|\n)[^\n]*\bneeds\b[^\n]*\n?(.*?)(?=\n\n|\Z)', readme, re.S | re.I)
        if not m:
            return 'see README.md (written by the seeding agent)'
        return ' '.join(m.group(0).split())[:900]
    return ' '.join(m.group(1).split())[:900]

ok = seedcheck(sclog)
first, final = matrix(mlog_first, keep_first=True), matrix(mlog_final)
for (pid, v), res in sorted(ok.items()):
    src = os.path.join(root, pid, v)
    if not os.path.isdir(src):
        continue
    if 'clean_demo_pass=1 mutant_demo_fails=1 suite_pass=1' not in res:
        print('SKIP (not confirmed)', pid, v, res)
        continue
    name = v if rnd == '1' else 'r%s%s' % (rnd, v)
    dst = os.path.join('/verif/seeded', pid, name)
    os.makedirs(dst, exist_ok=True)
    for f in os.listdir(src):
        if f in ('patch.diff', 'README.md') or f.startswith('demo'):
            shutil.copy(os.path.join(src, f), os.path.join(dst, f))
    readme = open(os.path.join(src, 'README.md'), errors='replace').read() if os.path.exists(os.path.join(src, 'README.md')) else ''
    d1, d2 = first.get((pid, v), {}), final.get((pid, v), {})
    meta = {
        'property': pid,
        'origin': 'sub-agent round %s, given only the property text and a scratch worktree' % rnd,
        'what_it_needs_to_manifest': needs(readme),
        'confirmed': {
            'how': 'scripts/seedcheck.sh in a scratch worktree of /repo HEAD: patch applies; demonstration passes without the change and fails with it; both modules\' existing suites pass with the change',
            'result': res,
        },
        'checks_run': {
            'how': 'scripts/mutwt.sh <patch> <scratch worktree> <ids>: quick tier, VERIF_SEED=1, VERIF_REPO=<worktree with the patch applied>',
            'when_the_change_arrived': render(d1),
            'committed_checks': render(d2),
        },
        'detected_by': sorted(k for k, x in d2.items() if x['rc'] == 1),
        'missed_at_first_by_own_property_check': bool(d1) and d1.get(pid, {}).get('rc') != 1,
    }
    if rnd == '1':
        # the log of the very first runs against round 1 was not kept; DESIGN.md 9.5 lists what was missed
        meta['missed_at_first_by_own_property_check'] = '%s/%s' % (pid, v) in R1_MISSED_AT_FIRST
        meta['checks_run']['when_the_change_arrived'] = 'not kept (re-run after strengthening: %s)' % render(d1)
    json.dump(meta, open(os.path.join(dst, 'meta.json'), 'w'), indent=1)
    print(pid, name, 'first:', sorted(k for k, x in d1.items() if x['rc'] == 1), 'final:', meta['detected_by'])
