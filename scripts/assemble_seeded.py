#!/usr/bin/env python3
"""Copy confirmed seeded changes into /verif/seeded/<id>/<variant>/ with a meta.json each.
usage: assemble_seeded.py <seeds-root> <round> <seedcheck-log> <matrix-log>"""
import json, os, re, shutil, sys
root, rnd, sclog, mlog = sys.argv[1:5]
# seedcheck results
ok = {}
cur = None
for l in open(sclog):
    m = re.match(r'===== (C\d+)/(\w)', l)
    if m: cur = (m.group(1), m.group(2)); continue
    if l.startswith('RESULT') and cur:
        ok[cur] = l.strip()
# matrix: which checks fired
fired = {}
cur = None
for l in open(mlog):
    m = re.match(r'######## .*/(C\d+)/(\w)/patch.diff', l)
    if m: cur = (m.group(1), m.group(2)); fired.setdefault(cur, {}); continue
    m = re.match(r'== (C\d+) rc=(\d+)', l)
    if m and cur: last = m.group(1); fired[cur][last] = {'rc': int(m.group(2)), 'keys': []}; continue
    m = re.match(r'\s+key=(\S+) occurrences=(\d+)', l)
    if m and cur: fired[cur][last]['keys'].append(m.group(1))
for (pid, v), res in sorted(ok.items()):
    src = os.path.join(root, pid, v)
    if 'clean_demo_pass=1 mutant_demo_fails=1 suite_pass=1' not in res:
        print('SKIP (not confirmed)', pid, v, res); continue
    name = v if rnd == '1' else 'r%s%s' % (rnd, v)
    dst = os.path.join('/verif/seeded', pid, name)
    os.makedirs(dst, exist_ok=True)
    for f in os.listdir(src):
        if f in ('patch.diff', 'README.md') or f.startswith('demo'):
            shutil.copy(os.path.join(src, f), os.path.join(dst, f))
    readme = open(os.path.join(src, 'README.md')).read() if os.path.exists(os.path.join(src, 'README.md')) else ''
    det = fired.get((pid, v), {})
    meta = {
        'property': pid,
        'origin': 'sub-agent round %s, given only the property text and a scratch worktree' % rnd,
        'what_it_breaks_and_needs': 'see README.md (written by the seeding agent)',
        'confirmed': {
            'how': 'scripts/seedcheck.sh in a scratch worktree of /repo HEAD: patch applies; demonstration passes without the change and fails with it; both modules\' existing suites pass with the change',
            'result': res,
        },
        'checks_run': {
            'how': 'scripts/mutwt.sh <patch> <scratch worktree> <ids>: quick tier, VERIF_SEED=1, VERIF_REPO=<worktree with the patch applied>',
            'results': {k: ('VIOLATION ' + ', '.join(x['keys']) if x['rc'] == 1 else ('silent' if x['rc'] == 0 else 'rc=%d' % x['rc'])) for k, x in sorted(det.items())},
        },
        'detected_by': sorted(k for k, x in det.items() if x['rc'] == 1),
    }
    json.dump(meta, open(os.path.join(dst, 'meta.json'), 'w'), indent=1)
    print(pid, name, meta['detected_by'])
