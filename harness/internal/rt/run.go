package rt

import (
	"encoding/json"
	"fmt"
	"os"
	"path/filepath"
	"runtime"
	"sort"
	"strconv"
	"sync"
	"sync/atomic"
	"testing"
	"time"
)

// Violation is one refuting observation. Key identifies the *kind* of failure
// (race pair, deadlock op/callback, history pattern, payload shape) and is what
// known_findings.json lists; Witness is the concrete case.
type Violation struct {
	Key     string `json:"key"`
	What    string `json:"what"`
	Witness any    `json:"witness,omitempty"`
}

// Result is what one child process (one batch) reports to the driver.
type Result struct {
	Property     string              `json:"property"`
	Seed         int64               `json:"seed"`
	Tier         string              `json:"tier"`
	Batch        int                 `json:"batch"`
	NBatch       int                 `json:"nbatch"`
	GoMaxProcs   int                 `json:"gomaxprocs"`
	Evaluations  int64               `json:"evaluations"`
	Sigs         []uint64            `json:"sigs"`
	SigsCapped   bool                `json:"sigs_capped,omitempty"`
	Samples      []any               `json:"samples"`
	Violations   []Violation         `json:"violations"`
	Inconclusive []string            `json:"inconclusive"`
	Counters     map[string]int64    `json:"counters"`
	Sets         map[string][]string `json:"sets"`
	WallS        float64             `json:"wall_s"`
	Finished     bool                `json:"finished"`
}

const maxSigs = 400000
const maxSetElems = 5000

// Run is the per-process handle of a property monitor.
type Run struct {
	ID     string
	Seed   int64
	Tier   string
	Batch  int
	NBatch int
	OutDir string

	t        *testing.T
	mu       sync.Mutex
	rng      *Rand
	sigs     map[uint64]struct{}
	sets     map[string]map[string]struct{}
	res      Result
	start    time.Time
	progress *os.File
	nviol    map[string]int
	once     map[string]bool
}

func envInt(name string, def int64) int64 {
	if v := os.Getenv(name); v != "" {
		if n, err := strconv.ParseInt(v, 10, 64); err == nil {
			return n
		}
	}
	return def
}

// Start reads the batch protocol from the environment. Without VERIF_OUT the
// test runs stand-alone (go test), writing nothing and failing the test on a
// violation.
func Start(t *testing.T, id string) *Run {
	if os.Getenv("VERIF_PROP") != "" && os.Getenv("VERIF_PROP") != id {
		t.Skip("not selected")
	}
	r := &Run{
		ID:     id,
		Seed:   envInt("VERIF_SEED", 1),
		Tier:   os.Getenv("VERIF_TIER"),
		Batch:  int(envInt("VERIF_BATCH", 0)),
		NBatch: int(envInt("VERIF_NBATCH", 1)),
		OutDir: os.Getenv("VERIF_OUT"),
		t:      t,
		sigs:   map[uint64]struct{}{},
		sets:   map[string]map[string]struct{}{},
		start:  time.Now(),
		nviol:  map[string]int{},
	}
	if r.Tier != "thorough" {
		r.Tier = "quick"
	}
	r.rng = NewRand(Mix(Mix(uint64(r.Seed), HashString(id)), uint64(r.Batch)+1))
	r.res = Result{Property: id, Seed: r.Seed, Tier: r.Tier, Batch: r.Batch, NBatch: r.NBatch,
		GoMaxProcs: runtime.GOMAXPROCS(0), Counters: map[string]int64{}, Sets: map[string][]string{}}
	if r.OutDir != "" {
		f, err := os.OpenFile(filepath.Join(r.OutDir, fmt.Sprintf("batch-%d.progress", r.Batch)), os.O_CREATE|os.O_WRONLY|os.O_TRUNC, 0o644)
		if err == nil {
			r.progress = f
		}
	}
	return r
}

func (r *Run) Quick() bool { return r.Tier == "quick" }

// ScaleEnv is the thorough-tier multiplier the driver passes (1 when unset).
func ScaleEnv() int { return int(envInt("VERIF_SCALE", 1)) }

// N returns the number of cases THIS batch executes when the whole run (all
// batches) is meant to execute quick resp. thorough cases.
func (r *Run) N(quick, thorough int) int {
	total := quick
	if !r.Quick() {
		// VERIF_SCALE (set by the driver from the property's registration) deepens the thorough tier
		total = thorough * int(envInt("VERIF_SCALE", 1))
	}
	n := total / r.NBatch
	if r.Batch < total%r.NBatch {
		n++
	}
	if n < 1 {
		n = 1
	}
	return n
}

// Pick returns q in the quick tier and th in the thorough tier.
func (r *Run) Pick(q, th int) int {
	if r.Quick() {
		return q
	}
	return th
}

// Rand is the batch's deterministic stream (not safe for concurrent use; Fork it).
func (r *Run) Rand() *Rand { return r.rng }

// Progress records the case about to be executed, so that a process-fatal
// report (race detector, fatal error, panic in a library goroutine) is
// attributable to a concrete case by the driver.
func (r *Run) Progress(format string, a ...any) {
	if r.progress == nil {
		return
	}
	r.mu.Lock()
	defer r.mu.Unlock()
	r.progress.Truncate(0)
	r.progress.WriteAt([]byte(fmt.Sprintf(format, a...)+"\n"), 0)
}

// Eval counts one executed case. sig != "" marks it non-trivial and is the
// signature used to count DISTINCT non-trivial cases.
func (r *Run) Eval(sig string) {
	r.mu.Lock()
	defer r.mu.Unlock()
	r.res.Evaluations++
	if sig != "" {
		if len(r.sigs) < maxSigs {
			r.sigs[HashString(sig)] = struct{}{}
		} else {
			r.res.SigsCapped = true
		}
	}
}

// EvalN counts n executed cases that share one signature.
func (r *Run) EvalN(n int, sig string) {
	r.mu.Lock()
	defer r.mu.Unlock()
	r.res.Evaluations += int64(n)
	if sig != "" && len(r.sigs) < maxSigs {
		r.sigs[HashString(sig)] = struct{}{}
	}
}

func (r *Run) Sample(v any) {
	r.mu.Lock()
	defer r.mu.Unlock()
	if len(r.res.Samples) < 3 {
		r.res.Samples = append(r.res.Samples, v)
	}
}

func (r *Run) NeedSample() bool {
	r.mu.Lock()
	defer r.mu.Unlock()
	return len(r.res.Samples) < 3
}

func (r *Run) Add(counter string, n int) {
	r.mu.Lock()
	defer r.mu.Unlock()
	r.res.Counters[counter] += int64(n)
}

// SetAdd adds an element to a named set whose distinct count is reported.
func (r *Run) SetAdd(name, elem string) {
	r.mu.Lock()
	defer r.mu.Unlock()
	s := r.sets[name]
	if s == nil {
		s = map[string]struct{}{}
		r.sets[name] = s
	}
	if len(s) < maxSetElems {
		s[elem] = struct{}{}
	}
}

// Violation records a refuting observation (at most 5 witnesses per key are kept).
func (r *Run) Violation(key, what string, witness any) {
	r.mu.Lock()
	defer r.mu.Unlock()
	r.nviol[key]++
	if r.nviol[key] <= 5 {
		r.res.Violations = append(r.res.Violations, Violation{Key: key, What: what, Witness: witness})
	}
	if r.OutDir == "" {
		r.t.Errorf("VIOLATION %s key=%s: %s witness=%s", r.ID, key, what, JSON(witness))
	} else if r.nviol[key] <= 5 {
		r.writeLocked(false)
	}
}

// ViolationOnce records a violation kind at most once per batch and does not count towards Stop():
// used for deviations that every case exhibits (typically a listed known finding), so that they
// neither flood the report nor end the batch before anything else was examined.
func (r *Run) ViolationOnce(key, what string, witness any) {
	r.mu.Lock()
	if r.once == nil {
		r.once = map[string]bool{}
	}
	seen := r.once[key]
	r.once[key] = true
	r.mu.Unlock()
	if !seen {
		r.Violation(key, what, witness)
	}
}

// Stop reports whether the batch should end early: enough witnesses were
// collected (a violating tree often makes every further case slow).
func (r *Run) Stop() bool {
	r.mu.Lock()
	defer r.mu.Unlock()
	n := 0
	for k, c := range r.nviol {
		if !r.once[k] {
			n += c
		}
	}
	return n >= 12 || len(r.res.Inconclusive) >= 20
}

func (r *Run) Violations() int {
	r.mu.Lock()
	defer r.mu.Unlock()
	n := 0
	for _, c := range r.nviol {
		n += c
	}
	return n
}

func (r *Run) Inconclusive(reason string) {
	r.mu.Lock()
	defer r.mu.Unlock()
	if len(r.res.Inconclusive) < 50 {
		r.res.Inconclusive = append(r.res.Inconclusive, reason)
	}
	if r.OutDir == "" {
		r.t.Logf("INCONCLUSIVE %s: %s", r.ID, reason)
	}
}

// Finish writes the batch result for the driver.
func (r *Run) Finish() {
	r.mu.Lock()
	defer r.mu.Unlock()
	r.writeLocked(true)
	if r.OutDir == "" {
		r.t.Logf("%s: evaluations=%d distinct_nontrivial=%d counters=%v violations=%d inconclusive=%d",
			r.ID, r.res.Evaluations, len(r.sigs), r.res.Counters, len(r.res.Violations), len(r.res.Inconclusive))
		for n, s := range r.res.Sets {
			r.t.Logf("  set %s: %d", n, len(s))
		}
	}
	if r.progress != nil {
		r.progress.Close()
	}
}

// writeLocked writes the (partial or final) batch result; r.mu must be held.
func (r *Run) writeLocked(finished bool) {
	r.res.Finished = finished
	r.res.WallS = time.Since(r.start).Seconds()
	r.res.Sigs = r.res.Sigs[:0]
	for s := range r.sigs {
		r.res.Sigs = append(r.res.Sigs, s)
	}
	sort.Slice(r.res.Sigs, func(i, j int) bool { return r.res.Sigs[i] < r.res.Sigs[j] })
	for name, s := range r.sets {
		var l []string
		for e := range s {
			l = append(l, e)
		}
		sort.Strings(l)
		r.res.Sets[name] = l
	}
	if r.OutDir == "" {
		return
	}
	b, err := json.Marshal(&r.res)
	if err != nil {
		// a witness that cannot be marshalled must not hide the verdict
		for i := range r.res.Violations {
			r.res.Violations[i].Witness = fmt.Sprintf("%+v", r.res.Violations[i].Witness)
		}
		for i := range r.res.Samples {
			r.res.Samples[i] = fmt.Sprintf("%+v", r.res.Samples[i])
		}
		b, err = json.Marshal(&r.res)
		if err != nil {
			panic(err)
		}
	}
	tmp := filepath.Join(r.OutDir, fmt.Sprintf("batch-%d.json.tmp", r.Batch))
	if err := os.WriteFile(tmp, b, 0o644); err != nil {
		panic(err)
	}
	if err := os.Rename(tmp, filepath.Join(r.OutDir, fmt.Sprintf("batch-%d.json", r.Batch))); err != nil {
		panic(err)
	}
}

func JSON(v any) string {
	b, err := json.Marshal(v)
	if err != nil {
		return fmt.Sprintf("%+v", v)
	}
	return string(b)
}

// ---- logical clock -------------------------------------------------------

var clock int64

// Tick returns the next value of the process-wide logical clock. Call
// timestamps are taken before invoking, return timestamps after the reply.
func Tick() int64 { return atomic.AddInt64(&clock, 1) }

// ---- unique tokens -------------------------------------------------------

var tokenCtr int64

// Token returns a process-unique token.
func Token(prefix string) string {
	return prefix + "-" + strconv.FormatInt(atomic.AddInt64(&tokenCtr, 1), 36)
}
