// Package rt is the runtime shared by all property monitors: seeded PRNG, batch
// protocol with the driver (cmd/check), evidence counters, violation records.
package rt

import "math"

// Rand is a splitmix64 stream. The case lists of every check are a pure
// function of (VERIF_SEED, property id, batch, tier); only goroutine
// schedules differ between runs.
type Rand struct{ s uint64 }

func NewRand(seed uint64) *Rand { return &Rand{s: seed} }

func Mix(a, b uint64) uint64 {
	z := a*0x9E3779B97F4A7C15 + b + 0x632BE59BD9B4E019
	z = (z ^ (z >> 30)) * 0xBF58476D1CE4E5B9
	z = (z ^ (z >> 27)) * 0x94D049BB133111EB
	return z ^ (z >> 31)
}

func HashString(s string) uint64 {
	h := uint64(14695981039346656037)
	for i := 0; i < len(s); i++ {
		h ^= uint64(s[i])
		h *= 1099511628211
	}
	return Mix(h, uint64(len(s)))
}

func (r *Rand) Uint64() uint64 {
	r.s += 0x9E3779B97F4A7C15
	z := r.s
	z = (z ^ (z >> 30)) * 0xBF58476D1CE4E5B9
	z = (z ^ (z >> 27)) * 0x94D049BB133111EB
	return z ^ (z >> 31)
}

// Intn returns a value in [0,n).
func (r *Rand) Intn(n int) int {
	if n <= 0 {
		return 0
	}
	return int(r.Uint64() % uint64(n))
}

// Range returns a value in [lo,hi].
func (r *Rand) Range(lo, hi int) int { return lo + r.Intn(hi-lo+1) }

func (r *Rand) Bool() bool { return r.Uint64()&1 == 1 }

// Chance returns true with probability num/den.
func (r *Rand) Chance(num, den int) bool { return r.Intn(den) < num }

func (r *Rand) Float() float64 { return float64(r.Uint64()>>11) / float64(1<<53) }

func (r *Rand) NormFloat() float64 {
	u1, u2 := r.Float(), r.Float()
	if u1 < 1e-300 {
		u1 = 1e-300
	}
	return math.Sqrt(-2*math.Log(u1)) * math.Cos(2*math.Pi*u2)
}

// Fork derives an independent stream.
func (r *Rand) Fork() *Rand { return NewRand(Mix(r.Uint64(), 0xA5A5)) }

func (r *Rand) Perm(n int) []int {
	p := make([]int, n)
	for i := range p {
		p[i] = i
	}
	for i := n - 1; i > 0; i-- {
		j := r.Intn(i + 1)
		p[i], p[j] = p[j], p[i]
	}
	return p
}

func (r *Rand) Bytes(n int) []byte {
	b := make([]byte, n)
	for i := range b {
		b[i] = byte(r.Uint64())
	}
	return b
}

func Pick[T any](r *Rand, xs []T) T { return xs[r.Intn(len(xs))] }
