package rt

import (
	"regexp"
	"runtime"
	"strconv"
	"strings"
	"sync"
	"time"
)

// Goroutine is one entry of a parsed runtime.Stack(all) dump.
type Goroutine struct {
	ID     string
	State  string
	Frames []string // function names, innermost first
	Raw    string
}

var gorHead = regexp.MustCompile(`^goroutine (\d+)(?: gp=\S+)?(?: m=\S+)?(?: mp=\S+)? \[([^\]]*)\]:`)

// Goroutines returns the parsed dump of all goroutines.
func Goroutines() []Goroutine {
	buf := make([]byte, 1<<20)
	for {
		n := runtime.Stack(buf, true)
		if n < len(buf) {
			buf = buf[:n]
			break
		}
		buf = make([]byte, 2*len(buf))
	}
	return ParseGoroutines(string(buf))
}

func ParseGoroutines(dump string) []Goroutine {
	var out []Goroutine
	for _, blk := range strings.Split(dump, "\n\n") {
		lines := strings.Split(strings.TrimSpace(blk), "\n")
		if len(lines) == 0 {
			continue
		}
		m := gorHead.FindStringSubmatch(lines[0])
		if m == nil {
			continue
		}
		g := Goroutine{ID: m[1], State: m[2], Raw: blk}
		if i := strings.Index(g.State, ","); i >= 0 {
			g.State = g.State[:i]
		}
		for _, l := range lines[1:] {
			if strings.HasPrefix(l, "\t") || strings.HasPrefix(l, " ") {
				continue
			}
			if strings.HasPrefix(l, "created by ") {
				l = strings.TrimPrefix(l, "created by ")
				if i := strings.Index(l, " in goroutine"); i >= 0 {
					l = l[:i]
				}
				g.Frames = append(g.Frames, "created-by:"+l)
				continue
			}
			if i := strings.LastIndex(l, "("); i > 0 {
				l = l[:i]
			}
			g.Frames = append(g.Frames, l)
		}
		out = append(out, g)
	}
	return out
}

// Has reports whether any frame contains sub.
func (g Goroutine) Has(sub string) bool {
	for _, f := range g.Frames {
		if strings.Contains(f, sub) {
			return true
		}
	}
	return false
}

// Parked reports whether the goroutine is blocked in a state from which only
// another goroutine can release it.
func (g Goroutine) Parked() bool {
	switch {
	case strings.HasPrefix(g.State, "chan send"), strings.HasPrefix(g.State, "chan receive"),
		strings.HasPrefix(g.State, "select"), strings.HasPrefix(g.State, "semacquire"),
		strings.HasPrefix(g.State, "sync.Mutex.Lock"), strings.HasPrefix(g.State, "sync.RWMutex.RLock"),
		strings.HasPrefix(g.State, "sync.RWMutex.Lock"), strings.HasPrefix(g.State, "sync.WaitGroup.Wait"),
		strings.HasPrefix(g.State, "sync.Cond.Wait"):
		return true
	}
	return false
}

// WaitNoGoroutine polls until no goroutine has a frame containing any of subs
// or the deadline passes; it returns the survivors.
func WaitNoGoroutine(deadline time.Duration, subs ...string) []Goroutine {
	end := time.Now().Add(deadline)
	for {
		var left []Goroutine
		for _, g := range Goroutines() {
			for _, s := range subs {
				if g.Has(s) {
					left = append(left, g)
					break
				}
			}
		}
		if len(left) == 0 || time.Now().After(end) {
			return left
		}
		time.Sleep(200 * time.Microsecond)
	}
}

// Barrier releases n goroutines at once.
type Barrier struct {
	n  int
	mu sync.Mutex
	c  int
	ch chan struct{}
}

func NewBarrier(n int) *Barrier { return &Barrier{n: n, ch: make(chan struct{})} }

func (b *Barrier) Wait() {
	b.mu.Lock()
	b.c++
	if b.c == b.n {
		close(b.ch)
	}
	b.mu.Unlock()
	<-b.ch
}

// GID is the id of the calling goroutine (parsed from its stack header): monitors use it to attribute a callback
// to the call on whose goroutine it runs. -1 if the header cannot be parsed.
func GID() int64 {
	var buf [64]byte
	s := string(buf[:runtime.Stack(buf[:], false)])
	s = strings.TrimPrefix(s, "goroutine ")
	if i := strings.IndexByte(s, ' '); i > 0 {
		if n, err := strconv.ParseInt(s[:i], 10, 64); err == nil {
			return n
		}
	}
	return -1
}
