// Package cryp is the independent verifier for values protected by encrypt.Filter: it uses only the
// standard library, x/crypto/hkdf and the wire type of go-kms-wrapping (BlobInfo), never the
// library under test.
package cryp

import (
	"context"
	"crypto/aes"
	"crypto/cipher"
	"crypto/ed25519"
	"crypto/hmac"
	"crypto/sha256"
	"encoding/base64"
	"errors"
	"fmt"
	"io"
	"strings"

	wrapping "github.com/hashicorp/go-kms-wrapping/v2"
	"github.com/hashicorp/go-kms-wrapping/v2/aead"
	"golang.org/x/crypto/hkdf"
	"google.golang.org/protobuf/proto"
)

const (
	EncPrefix  = "encrypted:"
	HmacPrefix = "hmac-sha256:"
	Redacted   = "[REDACTED]"
)

// NewWrapper builds a real AEAD wrapper over a known key.
func NewWrapper(key []byte, keyID string) *aead.Wrapper {
	w := aead.NewWrapper()
	if _, err := w.SetConfig(context.Background(), wrapping.WithKeyId(keyID)); err != nil {
		panic(err)
	}
	if err := w.SetAesGcmKeyBytes(key); err != nil {
		panic(err)
	}
	return w
}

// Open decrypts an "encrypted:" value with the raw AES-256-GCM key.
func Open(value string, key []byte) ([]byte, error) {
	if !strings.HasPrefix(value, EncPrefix) {
		return nil, errors.New("missing encrypted: prefix")
	}
	raw, err := base64.RawURLEncoding.DecodeString(strings.TrimPrefix(value, EncPrefix))
	if err != nil {
		return nil, fmt.Errorf("base64: %w", err)
	}
	var blob wrapping.BlobInfo
	if err := proto.Unmarshal(raw, &blob); err != nil {
		return nil, fmt.Errorf("blob: %w", err)
	}
	ct := blob.Ciphertext
	if len(ct) < 12 {
		return nil, errors.New("ciphertext shorter than a nonce")
	}
	blk, err := aes.NewCipher(key)
	if err != nil {
		return nil, err
	}
	gcm, err := cipher.NewGCM(blk)
	if err != nil {
		return nil, err
	}
	pt, err := gcm.Open(nil, ct[:12], ct[12:], nil)
	if err != nil {
		return nil, err
	}
	if pt == nil {
		pt = []byte{}
	}
	return pt, nil
}

// Hmac recomputes the documented digest: key = HKDF-SHA256(wrapper key, salt, info) -> 32 bytes,
// value = "hmac-sha256:" + base64url(HMAC-SHA256(key, data)).
func Hmac(data, wrapperKey, salt, info []byte) string {
	r := hkdf.New(sha256.New, wrapperKey, salt, info)
	key := make([]byte, 32)
	if _, err := io.ReadFull(r, key); err != nil {
		panic(err)
	}
	m := hmac.New(sha256.New, key)
	m.Write(data)
	return HmacPrefix + base64.RawURLEncoding.EncodeToString(m.Sum(nil))
}

// HmacKey derives the HMAC key of a configuration once; HmacWithKey then costs one HMAC per value.
func HmacKey(wrapperKey, salt, info []byte) []byte {
	r := hkdf.New(sha256.New, wrapperKey, salt, info)
	key := make([]byte, 32)
	if _, err := io.ReadFull(r, key); err != nil {
		panic(err)
	}
	return key
}

func HmacWithKey(key, data []byte) string {
	m := hmac.New(sha256.New, key)
	m.Write(data)
	return HmacPrefix + base64.RawURLEncoding.EncodeToString(m.Sum(nil))
}

// EventKey derives the per-event wrapper key as documented: HKDF-SHA256(base key, salt=eventId,
// info=nil) -> 32 byte seed -> the Ed25519 PUBLIC key of that seed is the AES-256 key.
func EventKey(baseKey []byte, eventID string) []byte {
	r := hkdf.New(sha256.New, baseKey, []byte(eventID), nil)
	seed := make([]byte, 32)
	if _, err := io.ReadFull(r, seed); err != nil {
		panic(err)
	}
	priv := ed25519.NewKeyFromSeed(seed)
	return []byte(priv.Public().(ed25519.PublicKey))
}

// Form classifies a protected value.
func Form(s string) string {
	switch {
	case s == Redacted:
		return "redact"
	case strings.HasPrefix(s, EncPrefix):
		return "encrypt"
	case strings.HasPrefix(s, HmacPrefix):
		return "hmac-sha256"
	}
	return "plain"
}
