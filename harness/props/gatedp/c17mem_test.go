//go:build verif

package gatedp

import (
	"context"
	"fmt"
	"runtime"
	"sync/atomic"
	"time"

	"github.com/hashicorp/eventlogger"
	"github.com/hashicorp/eventlogger/filters/gated"

	"verifharness/internal/rt"
)

// memPayload is a Gateable whose composite keeps no reference to the events it was composed from.
type memPayload struct {
	ID    string
	Flush bool
}

func (p *memPayload) GetID() string    { return p.ID }
func (p *memPayload) FlushEvent() bool { return p.Flush }
func (p *memPayload) ComposeFrom(events []*eventlogger.Event) (eventlogger.EventType, interface{}, error) {
	return "composite", fmt.Sprintf("%d events", len(events)), nil
}

type nullSender struct{ n int64 }

func (s *nullSender) Send(context.Context, eventlogger.EventType, interface{}) (eventlogger.Status, error) {
	atomic.AddInt64(&s.n, 1)
	return eventlogger.Status{}, nil
}

// feed gates groups x perGroup fresh events, each with a finalizer, and keeps no reference to them.
//
//go:noinline
func feed(f *gated.Filter, groups, perGroup int, tag string, finalized *int64) error {
	for g := 0; g < groups; g++ {
		for k := 0; k < perGroup; k++ {
			ev := &eventlogger.Event{Type: "gated", Payload: &memPayload{ID: fmt.Sprintf("%s-g%d", tag, g)}}
			runtime.SetFinalizer(ev, func(*eventlogger.Event) { atomic.AddInt64(finalized, 1) })
			if _, err := f.Process(context.Background(), ev); err != nil {
				return err
			}
		}
	}
	return nil
}

// c17Memory: "the memory the filter holds is bounded by the events of unexpired groups", observed through the
// garbage collector: every gated event carries a finalizer and only the filter refers to it. Once the groups have
// been emitted (FlushAll, Close, expiry seen by a later Process, a flush event) or dropped (no Broker), the events
// become unreachable and their finalizers run. Two events of slack are allowed for stale stack slots of the harness.
func c17Memory(run *rt.Run, r *rt.Rand) {
	n := run.N(8, 200)
	for it := 0; it < n && !run.Stop(); it++ {
		how := []string{"flushall", "close", "expiry", "flushall-no-broker", "expiry-no-broker", "flush-events"}[it%6]
		groups, per := r.Range(3, 24), r.Range(2, 6)
		var clock int64 = 1_700_000_000
		f := &gated.Filter{NowFunc: func() time.Time { return time.Unix(atomic.LoadInt64(&clock), 0) }, Expiration: 10 * time.Second}
		snd := &nullSender{}
		if how != "flushall-no-broker" && how != "expiry-no-broker" {
			f.Broker = snd
		}
		var finalized int64
		ctx := context.Background()
		if err := feed(f, groups, per, fmt.Sprint(it), &finalized); err != nil {
			run.Inconclusive("memory scenario: " + err.Error())
			continue
		}
		total := int64(groups * per)
		var err error
		switch how {
		case "flushall", "flushall-no-broker":
			err = f.FlushAll(ctx)
		case "close":
			err = f.Close(ctx)
		case "expiry", "expiry-no-broker":
			atomic.AddInt64(&clock, 60)
			// a later event (of a group that stays gated, without a finalizer) makes the filter look at expiry
			_, err = f.Process(ctx, &eventlogger.Event{Type: "gated", Payload: &memPayload{ID: "later"}})
		case "flush-events":
			for g := 0; g < groups && err == nil; g++ {
				_, err = f.Process(ctx, &eventlogger.Event{Type: "gated", Payload: &memPayload{ID: fmt.Sprintf("%d-g%d", it, g), Flush: true}})
			}
		}
		if err != nil {
			run.Add("memory_scenarios_with_error_not_judged", 1)
			continue
		}
		// (finalizers run on a goroutine of their own: on a loaded machine it may take a while to be scheduled;
		// the loop only runs for as long as something is still unreclaimed)
		for i := 0; i < 300 && atomic.LoadInt64(&finalized) < total-2; i++ {
			runtime.GC()
			time.Sleep(10 * time.Millisecond)
		}
		left := total - atomic.LoadInt64(&finalized)
		run.Eval(fmt.Sprintf("memory|%s|%d|%d", how, groups, per))
		run.Add("memory_scenarios", 1)
		run.Add("events_reclaimed", int(total-left))
		if left > 2 {
			run.Violation("history-pattern:memory-held", fmt.Sprintf("%d of %d events of %d groups that left the gate (%s) are still reachable after repeated garbage collections although only the filter ever referred to them", left, total, groups, how),
				map[string]any{"how": how, "groups": groups, "events_per_group": per, "composites_sent": atomic.LoadInt64(&snd.n)})
		}
		runtime.KeepAlive(f)
	}
}
