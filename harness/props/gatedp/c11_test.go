package gatedp

import (
	"fmt"
	"testing"

	"verifharness/internal/rt"
)

var gAlphabet = []gstep{
	{Kind: "ev", ID: "a"}, {Kind: "ev", ID: "a", Flush: true},
	{Kind: "ev", ID: "b"}, {Kind: "ev", ID: "b", Flush: true},
	{Kind: "ev", ID: "c"},
	{Kind: "ng"}, {Kind: "emptyid"},
	{Kind: "adv", Adv: 6}, {Kind: "adv", Adv: 11},
	{Kind: "flushall"}, {Kind: "close"},
}

func gConfigs() []gconfig {
	cs := []gconfig{{Sender: true}, {Sender: false}}
	for k := 1; k <= 3; k++ {
		cs = append(cs, gconfig{Sender: true, ComposeFailAt: k}, gconfig{Sender: false, ComposeFailAt: k})
	}
	for k := 1; k <= 2; k++ {
		cs = append(cs, gconfig{Sender: true, SendFailAt: k}, gconfig{Sender: true, GateableAt: k})
	}
	cs = append(cs, gconfig{Sender: false, GateableAt: 1}, gconfig{Sender: true, DefaultExp: true}, gconfig{Sender: true, CancelAtSend: 1})
	return cs
}

func genRandomHistory(r *rt.Rand, n int) []gstep {
	// up to six groups open at once (the exhaustive alphabet has three ids; a long quiet period lets all of
	// them expire before the next event)
	ids := []string{"a", "b", "c"}
	if r.Intn(3) == 0 {
		ids = []string{"a", "b", "c", "d", "e", "f"}
	}
	var h []gstep
	for i := 0; i < n; i++ {
		switch x := r.Intn(100); {
		case x < 55:
			h = append(h, gstep{Kind: "ev", ID: rt.Pick(r, ids), Flush: r.Intn(6) == 0})
		case x < 62:
			h = append(h, gstep{Kind: "ng"})
		case x < 66:
			h = append(h, gstep{Kind: "emptyid", Flush: r.Bool()})
		case x < 90:
			h = append(h, gstep{Kind: "adv", Adv: r.Range(1, 13)})
		case x < 96:
			h = append(h, gstep{Kind: "flushall"})
		case x < 98:
			h = append(h, gstep{Kind: "nilev"})
		default:
			h = append(h, gstep{Kind: "close"})
		}
	}
	return h
}

func randConfig(r *rt.Rand) gconfig {
	c := gconfig{Sender: r.Intn(4) > 0, DefaultExp: r.Intn(4) == 0}
	if c.Sender && r.Intn(4) == 0 {
		c.CancelAtSend = r.Range(1, 6)
	}
	switch r.Intn(5) {
	case 0:
		c.ComposeFailAt = r.Range(1, 12)
	case 1:
		if c.Sender {
			c.SendFailAt = r.Range(1, 8)
		}
	case 2:
		c.GateableAt = r.Range(1, 10)
	}
	return c
}

// forEachHistory enumerates all histories up to depth over gAlphabet x gConfigs (this batch's share)
// and then PRNG-determined random histories.
func forEachHistory(run *rt.Run, depth, nrandom, maxLen int, f func(cfg gconfig, h []gstep, exhaustive bool)) {
	cfgs := gConfigs()
	idx := 0
	var rec func(h []gstep, d int)
	rec = func(h []gstep, d int) {
		if run.Stop() {
			return
		}
		if len(h) == d {
			mine := idx%run.NBatch == run.Batch
			idx++
			if !mine {
				return
			}
			for _, c := range cfgs {
				f(c, h, true)
			}
			return
		}
		for _, s := range gAlphabet {
			rec(append(h, s), d)
		}
	}
	for d := 1; d <= depth; d++ {
		rec(nil, d)
	}
	r := run.Rand()
	for i := 0; i < nrandom && !run.Stop(); i++ {
		cr := r.Fork()
		f(randConfig(cr), genRandomHistory(cr, cr.Range(5, maxLen)), false)
	}
}

func TestC11(t *testing.T) {
	run := rt.Start(t, "C11")
	defer run.Finish()
	depth := run.Pick(4, 6)
	if run.Batch == 0 {
		run.Add("exhaustive_depth_reached", depth)
	}
	forEachHistory(run, depth, run.N(3000, 150000), 200, func(cfg gconfig, h []gstep, ex bool) {
		run.Progress("C11 %s | %s", cfg, stepsString(h))
		s := runHistory(cfg, h)
		n := len(s.res)
		s.drain([]string{"a", "b", "c"})
		checkC11(run, cfg, h, s, n)
		kind := "r"
		if ex {
			kind = "x"
			run.Add("exhaustive_histories", 1)
		}
		run.Eval(fmt.Sprintf("%s|%s|%s", kind, cfg, stepsString(h)))
		run.Add("compose_calls", len(s.e.compose))
		if run.NeedSample() && len(s.e.compose) >= 3 {
			var cs []string
			for _, c := range s.e.compose {
				cs = append(cs, fmt.Sprintf("step %d ComposeFrom(%v)", c.Step, c.Toks))
			}
			run.Sample(map[string]any{"config": cfg.String(), "history": stepsString(h), "compose_calls": cs})
		}
	})
	c11Concurrent(run)
	c11FirstEvents(run)
}

func TestC17(t *testing.T) {
	run := rt.Start(t, "C17")
	defer run.Finish()
	depth := run.Pick(4, 6)
	if run.Batch == 0 {
		run.Add("exhaustive_depth_reached", depth)
	}
	forEachHistory(run, depth, run.N(3000, 150000), 120, func(cfg gconfig, h []gstep, ex bool) {
		run.Progress("C17 %s | %s", cfg, stepsString(h))
		probe := ex || len(h) <= 30
		checkC17(run, cfg, h, probe)
		maxOpen := 0
		kind := "r"
		if ex {
			kind = "x"
			run.Add("exhaustive_histories", 1)
		}
		_ = maxOpen
		run.Eval(fmt.Sprintf("%s|%s|%s", kind, cfg, stepsString(h)))
		if run.NeedSample() && len(h) >= 5 {
			run.Sample(map[string]any{"config": cfg.String(), "history": stepsString(h)})
		}
	})
	// histories in which the filter's Broker is set or cleared between events: whether a group is sent or dropped
	// is decided by the Broker configured when it expires / when FlushAll or Close runs
	r := run.Rand()
	c17Memory(run, r.Fork())
	nt := run.N(1500, 60000)
	for i := 0; i < nt && !run.Stop(); i++ {
		cr := r.Fork()
		cfg := randConfig(cr)
		h := genRandomHistory(cr, cr.Range(5, 60))
		for k := cr.Range(1, 4); k > 0; k-- {
			at := cr.Intn(len(h) + 1)
			h = append(h[:at], append([]gstep{{Kind: rt.Pick(cr, []string{"broker-on", "broker-off"})}}, h[at:]...)...)
		}
		run.Progress("C17 (broker toggled) %s | %s", cfg, stepsString(h))
		checkC17(run, cfg, h, len(h) <= 30)
		run.Eval(fmt.Sprintf("t|%s|%s", cfg, stepsString(h)))
	}
	c17Concurrent(run)
	c17Overtake(run)
}
