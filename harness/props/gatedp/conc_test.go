package gatedp

import (
	"context"
	"fmt"
	"runtime"
	"strconv"
	"strings"
	"sync"
	"sync/atomic"
	"time"

	"github.com/hashicorp/eventlogger"
	"github.com/hashicorp/eventlogger/filters/gated"

	"verifharness/internal/rt"
)

type cevent struct {
	Tok       string
	ID        string
	Sender    int
	N         int
	Flush     bool
	Call, Ret int64
	Err       error
	Comp      []string
}

type passNode struct{ typ eventlogger.NodeType }

func (n *passNode) Process(ctx context.Context, e *eventlogger.Event) (*eventlogger.Event, error) {
	if n.typ == eventlogger.NodeTypeSink {
		return nil, nil
	}
	return e, nil
}
func (n *passNode) Reopen() error              { return nil }
func (n *passNode) Type() eventlogger.NodeType { return n.typ }

// capture records what leaves the gated filter down the pipeline (flush composites).
type capture struct {
	mu   sync.Mutex
	seen map[string][]string // last token -> composite list
}

func (c *capture) Process(ctx context.Context, e *eventlogger.Event) (*eventlogger.Event, error) {
	if p, ok := e.Payload.(*composite); ok && len(p.Toks) > 0 {
		c.mu.Lock()
		c.seen[p.Toks[len(p.Toks)-1]] = p.Toks
		c.mu.Unlock()
	}
	return e, nil
}
func (c *capture) Reopen() error              { return nil }
func (c *capture) Type() eventlogger.NodeType { return eventlogger.NodeTypeFormatter }

func c11Concurrent(run *rt.Run) {
	r := run.Rand()
	nh := run.N(60, 3000)
	for i := 0; i < nh && !run.Stop(); i++ {
		cr := r.Fork()
		nsend, nev := cr.Range(2, 8), cr.Range(40, 160)
		withSender := cr.Intn(4) > 0
		viaBroker := cr.Intn(3) == 0
		flushers := cr.Intn(3)
		run.Progress("C11 concurrent %d senders=%d events=%d sender=%v viaBroker=%v flushAllers=%d", i, nsend, nev, withSender, viaBroker, flushers)
		e := &env{slowNow: int32(cr.Intn(4))}
		f := &gated.Filter{Expiration: expiration * time.Second, NowFunc: e.now}
		if withSender {
			f.Broker = &recSender{e}
		}
		var b *eventlogger.Broker
		cap := &capture{seen: map[string][]string{}}
		if viaBroker {
			b, _ = eventlogger.NewBroker()
			b.RegisterNode("g", f)
			b.RegisterNode("m", cap)
			b.RegisterNode("k", &passNode{eventlogger.NodeTypeSink})
			if err := b.RegisterPipeline(eventlogger.Pipeline{PipelineID: "p", EventType: "gated", NodeIDs: []eventlogger.NodeID{"g", "m", "k"}}); err != nil {
				panic(err)
			}
		}
		events := make([][]*cevent, nsend)
		bar := rt.NewBarrier(nsend + flushers + 1)
		var wg sync.WaitGroup
		var stop int32
		ctx := context.Background()
		for s := 0; s < nsend; s++ {
			wg.Add(1)
			sr := cr.Fork()
			go func(s int) {
				defer wg.Done()
				bar.Wait()
				for n := 0; n < nev; n++ {
					ev := &cevent{Tok: fmt.Sprintf("s%d-%d", s, n), ID: rt.Pick(sr, []string{"a", "b", "c"}), Sender: s, N: n, Flush: sr.Intn(12) == 0}
					p := &gp{ID: ev.ID, Flush: ev.Flush, Tok: ev.Tok, env: e}
					ev.Call = rt.Tick()
					if viaBroker {
						_, err := b.Send(ctx, "gated", p)
						_ = err
						// a node error surfaces as a warning, not as Send's error: acceptance is decided from the drain below
					} else {
						out, err := f.Process(ctx, &eventlogger.Event{Type: "gated", Payload: p})
						ev.Err = err
						if out != nil {
							if c, ok := out.Payload.(*composite); ok {
								ev.Comp = c.Toks
							}
						}
					}
					ev.Ret = rt.Tick()
					events[s] = append(events[s], ev)
					if sr.Intn(3) == 0 {
						runtime.Gosched()
					}
				}
			}(s)
		}
		for fl := 0; fl < flushers; fl++ {
			go func() {
				bar.Wait()
				for atomic.LoadInt32(&stop) == 0 {
					f.FlushAll(ctx)
					runtime.Gosched()
				}
			}()
		}
		go func() { // clock
			bar.Wait()
			for atomic.LoadInt32(&stop) == 0 {
				atomic.AddInt64(&e.clock, 3)
				time.Sleep(50 * time.Microsecond)
			}
		}()
		wg.Wait()
		atomic.StoreInt32(&stop, 1)
		time.Sleep(time.Millisecond)
		// quiesce and drain
		for _, id := range []string{"a", "b", "c"} {
			f.Process(ctx, &eventlogger.Event{Type: "gated", Payload: &gp{ID: id, Flush: true, Tok: "drain-" + id, env: e}})
		}
		f.Close(ctx)
		// ---- oracle ----
		e.mu.Lock()
		comps := append([]composeCall(nil), e.compose...)
		e.mu.Unlock()
		byTok := map[string]*cevent{}
		for _, es := range events {
			for _, ev := range es {
				byTok[ev.Tok] = ev
			}
		}
		wit := func(extra string) any {
			return map[string]any{"senders": nsend, "events_per_sender": nev, "sender_set": withSender, "via_broker": viaBroker, "flushall_goroutines": flushers, "detail": extra}
		}
		where := map[string]int{}
		okAll := true
		for ci, c := range comps {
			lastN := map[int]int{}
			for k, tok := range c.Toks {
				if c.IDs[k] != c.IDs[0] {
					run.Violation("history-pattern:mixed-ids", fmt.Sprintf("ComposeFrom(%v) mixes IDs", c.Toks), wit(""))
					okAll = false
				}
				if prev, dup := where[tok]; dup {
					run.Violation("history-pattern:duplicate", fmt.Sprintf("event %s was handed to composition twice (calls #%d and #%d)", tok, prev, ci), wit(""))
					okAll = false
				}
				where[tok] = ci
				ev := byTok[tok]
				if ev == nil {
					continue
				}
				if ln, ok := lastN[ev.Sender]; ok && ev.N < ln {
					run.Violation("history-pattern:order", fmt.Sprintf("ComposeFrom(%v): events of sender %d are out of their sending order", c.Toks, ev.Sender), wit(""))
					okAll = false
				}
				lastN[ev.Sender] = ev.N
				if k > 0 {
					if pv := byTok[c.Toks[k-1]]; pv != nil && ev.Ret < pv.Call {
						run.Violation("history-pattern:order", fmt.Sprintf("ComposeFrom(%v): %s was processed entirely before %s but is listed after it", c.Toks, tok, c.Toks[k-1]), wit(""))
						okAll = false
					}
				}
			}
		}
		lost := 0
		for _, es := range events {
			for _, ev := range es {
				if viaBroker {
					continue
				}
				_, composed := where[ev.Tok]
				if ev.Err == nil && !composed && withSender {
					lost++
					if lost <= 3 {
						run.Violation("history-pattern:lost", fmt.Sprintf("accepted event %s (id %s) was never handed to composition", ev.Tok, ev.ID), wit(""))
						okAll = false
					}
				}
				if ev.Flush && ev.Err == nil && (len(ev.Comp) == 0 || ev.Comp[len(ev.Comp)-1] != ev.Tok) {
					run.Violation("history-pattern:flush-composite", fmt.Sprintf("flush event %s did not return the composite of its own group (%v)", ev.Tok, ev.Comp), wit(""))
					okAll = false
				}
			}
		}
		if viaBroker && withSender {
			// through the Broker every event was offered exactly once; all of them must be composed exactly once
			for _, es := range events {
				for _, ev := range es {
					if _, composed := where[ev.Tok]; !composed {
						lost++
						if lost <= 3 {
							run.Violation("history-pattern:lost", fmt.Sprintf("event %s (id %s) sent through the Broker pipeline was never handed to composition", ev.Tok, ev.ID), wit(""))
							okAll = false
						}
					}
				}
			}
		}
		_ = okAll
		run.Add("concurrent_events", nsend*nev)
		run.Add("concurrent_compositions", len(comps))
		run.Eval("conc|" + strconv.Itoa(nsend) + "|" + strconv.Itoa(nev) + "|" + strings.Repeat("s", flushers) + fmt.Sprint(withSender, viaBroker))
	}
}
