package gatedp

import (
	"fmt"
	"strings"

	"verifharness/internal/rt"
)

// runHistory executes h on a fresh real filter.
func runHistory(cfg gconfig, h []gstep) *session {
	s := newSession(cfg)
	for _, st := range h {
		s.do(st)
	}
	return s
}

// drain closes every group that may still be open: a flush probe per id, then Close.
func (s *session) drain(ids []string) {
	s.e.mu.Lock()
	s.e.composeFailAt, s.e.gateableAt, s.e.sendFailAt = 0, 0, 0
	s.e.mu.Unlock()
	for _, id := range ids {
		s.do(gstep{Kind: "ev", ID: id, Flush: true})
	}
	s.do(gstep{Kind: "close"})
}

// checkC11 is the timing-agnostic oracle: conservation, exactly-once, grouping, order, destination.
// It is evaluated over the whole history plus the final drain.
func checkC11(run *rt.Run, cfg gconfig, h []gstep, s *session, nHist int) bool {
	e := s.e
	wit := func(extra string) any {
		var rs []string
		for i, r := range s.res {
			tag := ""
			if i >= nHist {
				tag = " (drain)"
			}
			rs = append(rs, fmt.Sprintf("%d%s: %s tok=%s -> err=%v same=%v nil=%v composite=%v", i, tag, r.Step, r.Tok, r.Err, r.SamePtr, r.Nil, r.CompToks))
		}
		var cs, ss []string
		for _, c := range e.compose {
			cs = append(cs, fmt.Sprintf("step %d ComposeFrom(%v) -> %s", c.Step, c.Toks, c.Result))
		}
		for _, c := range e.sends {
			ss = append(ss, fmt.Sprintf("step %d Sender.Send(%v) -> %s", c.Step, c.Toks, c.Result))
		}
		return map[string]any{"config": cfg.String(), "history": stepsString(h), "steps": rs, "compose_calls": cs, "sender_calls": ss, "detail": extra}
	}
	bad := func(key, what string) bool {
		run.Violation("history-pattern:"+key, what, wit(what))
		return false
	}
	// accepted events, in arrival order, per id
	accepted := map[string][]string{} // id -> toks
	acceptedStep := map[string]int{}
	idOf := map[string]string{}
	for i, r := range s.res {
		switch r.Step.Kind {
		case "ng":
			if r.Err != nil || !r.SamePtr {
				return bad("non-gateable-not-passed", fmt.Sprintf("step %d: a non-Gateable event must pass through unchanged (same pointer, no error)", i))
			}
			if r.ComposeIdx[0] != r.ComposeIdx[1] || r.SendIdx[0] != r.SendIdx[1] {
				// allowed: nothing promised either way
			}
		case "emptyid":
			if r.Err == nil {
				return bad("empty-id-accepted", fmt.Sprintf("step %d: an event without an ID must be rejected", i))
			}
			if r.ComposeIdx[0] != r.ComposeIdx[1] || r.SendIdx[0] != r.SendIdx[1] {
				return bad("empty-id-side-effect", fmt.Sprintf("step %d: a rejected event without ID caused composition or sending", i))
			}
		case "ev":
			idOf[r.Tok] = r.Step.ID
			if r.Err == nil {
				accepted[r.Step.ID] = append(accepted[r.Step.ID], r.Tok)
				acceptedStep[r.Tok] = i
				if !r.Step.Flush && !r.Nil {
					return bad("gated-event-forwarded", fmt.Sprintf("step %d: a Gateable non-flush event was not withheld", i))
				}
			} else {
				acceptedStep[r.Tok] = i
			}
		}
	}
	// composites emitted through the Sender are never Gateable
	for _, c := range e.sends {
		if c.Gateable {
			return bad("gateable-composite-sent", fmt.Sprintf("step %d: a Gateable composite was sent through the Broker", c.Step))
		}
	}
	// every ComposeFrom list: one id, arrival order, no event twice over the whole history
	seen := map[string]int{}
	for ci, c := range e.compose {
		if len(c.Toks) == 0 {
			return bad("empty-composition", fmt.Sprintf("step %d: ComposeFrom was called with no events", c.Step))
		}
		for k, tok := range c.Toks {
			if c.IDs[k] != c.IDs[0] {
				return bad("mixed-ids", fmt.Sprintf("step %d: ComposeFrom(%v) mixes events of different IDs", c.Step, c.Toks))
			}
			if prev, dup := seen[tok]; dup {
				return bad("duplicate", fmt.Sprintf("event %s was handed to composition twice (compose calls #%d and #%d)", tok, prev, ci))
			}
			seen[tok] = ci
		}
	}
	// grouping: per id, the composition lists partition the member sequence (accepted events plus flush
	// events whose composition failed after they had joined their group) into consecutive runs, in
	// order; closing points are the compositions themselves; with no Sender, FlushAll/Close/expiry may
	// drop a run without composing it.
	members := map[string][]string{}
	for _, r := range s.res {
		if r.Step.Kind != "ev" {
			continue
		}
		if _, composed := seen[r.Tok]; r.Err == nil || composed {
			members[r.Step.ID] = append(members[r.Step.ID], r.Tok)
		}
	}
	for id, toks := range members {
		pos := 0
		for _, c := range e.compose {
			if c.IDs[0] != id {
				continue
			}
			start := -1
			for k := pos; k < len(toks); k++ {
				if toks[k] == c.Toks[0] {
					start = k
					break
				}
			}
			if start < 0 {
				return bad("order", fmt.Sprintf("ComposeFrom(%v) does not start at the oldest withheld event of %s (arrival order %v)", c.Toks, id, toks))
			}
			if start > pos {
				// events toks[pos:start] were skipped: only allowed when they were dropped for lack of a Sender
				if cfg.Sender {
					return bad("lost", fmt.Sprintf("events %v of %s were never handed to composition although a later group %v was", toks[pos:start], id, c.Toks))
				}
				if !droppedByFlushAll(s, toks[pos:start], acceptedStep, c.Step) {
					return bad("lost", fmt.Sprintf("events %v of %s were skipped without a FlushAll/Close/expiry that could have dropped them", toks[pos:start], id))
				}
			}
			for k, tok := range c.Toks {
				if start+k >= len(toks) || toks[start+k] != tok {
					return bad("grouping", fmt.Sprintf("ComposeFrom(%v) is not a run of consecutive events of %s in arrival order (arrival order %v)", c.Toks, id, toks))
				}
			}
			n := len(c.Toks)
			// the run must be maximal: the next member of this id must have arrived after the composition
			if start+n < len(toks) {
				nxt := toks[start+n]
				if acceptedStep[nxt] < c.Step {
					return bad("grouping", fmt.Sprintf("ComposeFrom(%v) at step %d leaves out %s which had been accepted at step %d", c.Toks, c.Step, nxt, acceptedStep[nxt]))
				}
			}
			pos = start + n
		}
		if pos < len(toks) {
			rest := toks[pos:]
			if cfg.Sender {
				return bad("lost", fmt.Sprintf("accepted events %v of %s were never handed to composition (history + drain)", rest, id))
			}
			if !droppedByFlushAll(s, rest, acceptedStep, len(s.res)) {
				return bad("lost", fmt.Sprintf("accepted events %v of %s were never handed to composition and no FlushAll/Close without Broker dropped them", rest, id))
			}
		}
	}
	// destination: a flush returns exactly the composition of its own step; every other composition goes to the Sender
	for i, r := range s.res {
		var mine *composeCall
		for k := r.ComposeIdx[0]; k < r.ComposeIdx[1]; k++ {
			c := &e.compose[k]
			if r.Step.Kind == "ev" && r.Step.Flush && c.Toks[len(c.Toks)-1] == r.Tok {
				mine = c
			}
		}
		if r.Step.Kind == "ev" && r.Step.Flush && r.Err == nil {
			if mine == nil || strings.Join(mine.Toks, ",") != strings.Join(r.CompToks, ",") || !r.NewEvent {
				return bad("flush-composite", fmt.Sprintf("step %d: the flush event did not return the composite of its group (returned %v)", i, r.CompToks))
			}
		}
		if cfg.Sender {
			var want [][]string
			for k := r.ComposeIdx[0]; k < r.ComposeIdx[1]; k++ {
				c := &e.compose[k]
				if c != mine && c.Result == "ok" {
					want = append(want, c.Toks)
				}
			}
			var got [][]string
			for k := r.SendIdx[0]; k < r.SendIdx[1]; k++ {
				got = append(got, e.sends[k].Toks)
			}
			if !eqLists(want, got) {
				return bad("destination", fmt.Sprintf("step %d: compositions %v should have been sent through the Broker, Sender received %v", i, want, got))
			}
		} else if r.SendIdx[0] != r.SendIdx[1] {
			return bad("destination", fmt.Sprintf("step %d: something was sent although no Broker is configured", i))
		}
	}
	return true
}

// droppedByFlushAll reports whether a FlushAll/Close (or an expiry) with no Sender lies between the
// acceptance of the events and the given step, which may legitimately have discarded them.
func droppedByFlushAll(s *session, toks []string, acceptedStep map[string]int, before int) bool {
	last := acceptedStep[toks[len(toks)-1]]
	for i := last + 1; i < before && i < len(s.res); i++ {
		k := s.res[i].Step.Kind
		if (k == "flushall" || k == "close") && s.res[i].Err == nil {
			return true
		}
		if k == "ev" && s.res[i].Time > s.res[last].Time+expiration {
			return true // expired and dropped for lack of a Sender
		}
	}
	return false
}

// checkC17 compares the real filter with the timing model step by step: after every successful
// Process of a Gateable event at T every group with expiry < T was emitted (oldest first) or dropped,
// and after a successful FlushAll/Close nothing remains; probes on a replayed copy show what lingers.
func checkC17(run *rt.Run, cfg gconfig, h []gstep, probe bool) bool {
	s := newSession(cfg)
	m := &gmodel{cfg: cfg}
	ids := []string{"a", "b", "c", "d", "e", "f"}
	wit := func(i int, extra string) any {
		var rs []string
		for k, r := range s.res {
			var sent [][]string
			for x := r.SendIdx[0]; x < r.SendIdx[1]; x++ {
				sent = append(sent, s.e.sends[x].Toks)
			}
			rs = append(rs, fmt.Sprintf("%d: t=%ds %s tok=%s -> err=%v emitted=%v returned=%v", k, r.Time, r.Step, r.Tok, r.Err, sent, r.CompToks))
		}
		return map[string]any{"config": cfg.String(), "history": stepsString(h), "failing_step": i, "steps": rs, "detail": extra}
	}
	for i, st := range h {
		r := s.do(st)
		x := m.step(st, r.Tok, r.Time)
		if (r.Err != nil) != x.Err {
			// an unexpected error or success: the subject of C11's clauses (rejections) or of failure handling;
			// the timing model cannot continue.
			if st.Kind == "ev" || st.Kind == "flushall" || st.Kind == "close" {
				run.Violation("history-pattern:unexpected-result:"+st.Kind, fmt.Sprintf("step %d %s: err=%v but the specification expects error=%v", i, st, r.Err, x.Err), wit(i, ""))
			}
			return false
		}
		if r.Err != nil {
			// only successful calls are constrained; after an injected failure the model followed the same path
			var got [][]string
			for k := r.ComposeIdx[0]; k < r.ComposeIdx[1]; k++ {
				got = append(got, s.e.compose[k].Toks)
			}
			if !eqLists(got, x.Compose) {
				run.Inconclusive("after an injected failure the filter composed different groups than the model; timing not judged further")
				return true
			}
			continue
		}
		switch st.Kind {
		case "ev":
			var got [][]string
			for k := r.SendIdx[0]; k < r.SendIdx[1]; k++ {
				got = append(got, s.e.sends[k].Toks)
			}
			if !eqLists(got, x.Sent) {
				run.Violation("history-pattern:expired-not-emitted", fmt.Sprintf("step %d: Process at t=%ds: expired groups %v must be emitted through the Broker oldest first, Sender received %v", i, r.Time, x.Sent, got), wit(i, ""))
				return false
			}
			if st.Flush && strings.Join(r.CompToks, ",") != strings.Join(x.Returned, ",") {
				run.Violation("history-pattern:lingering-in-flush", fmt.Sprintf("step %d: flush returned %v, the unexpired group is %v", i, r.CompToks, x.Returned), wit(i, ""))
				return false
			}
		case "flushall", "close":
			var got [][]string
			for k := r.SendIdx[0]; k < r.SendIdx[1]; k++ {
				got = append(got, s.e.sends[k].Toks)
			}
			if !eqLists(got, x.Sent) {
				run.Violation("history-pattern:flushall-incomplete", fmt.Sprintf("step %d: %s must emit every gated group exactly once in open order %v, Sender received %v", i, st.Kind, x.Sent, got), wit(i, ""))
				return false
			}
		}
		// probe on a replayed copy: what does the filter still hold?
		if probe && (st.Kind == "ev" || st.Kind == "flushall" || st.Kind == "close") {
			ps := runHistory(cfg, h[:i+1])
			ps.e.mu.Lock()
			ps.e.composeFailAt, ps.e.gateableAt, ps.e.sendFailAt = 0, 0, 0
			ps.e.mu.Unlock()
			held := 0
			for _, id := range ids {
				pr := ps.do(gstep{Kind: "ev", ID: id, Flush: true})
				var want []string
				if gi := m.find(id); gi >= 0 {
					want = m.groups[gi].toks
				}
				got := pr.CompToks
				if len(got) > 0 {
					got = got[:len(got)-1] // the probe's own event
				}
				held += len(got)
				// token names of the replay equal those of the original run (same counter sequence)
				if pr.Err != nil || strings.Join(got, ",") != strings.Join(want, ",") {
					run.Violation("history-pattern:lingering", fmt.Sprintf("after step %d (%s at t=%ds) the filter still holds %v for id %s; only %v may remain gated (err=%v)", i, st, r.Time, got, id, want, pr.Err), wit(i, "probe on a replayed copy"))
					return false
				}
			}
			bound := 0
			for _, g := range m.groups {
				bound += len(g.toks)
			}
			if held > bound {
				run.Violation("history-pattern:memory-bound", fmt.Sprintf("after step %d the filter holds %d events, unexpired groups hold %d", i, held, bound), wit(i, ""))
				return false
			}
		}
	}
	return true
}
