package gatedp

import (
	"context"
	"fmt"
	"runtime"
	"sort"
	"strings"
	"sync"
	"sync/atomic"
	"time"

	"github.com/hashicorp/eventlogger"
	"github.com/hashicorp/eventlogger/filters/gated"

	"verifharness/internal/rt"
)

// yieldSender is a Sender that gives other goroutines room while a composite is in flight.
type yieldSender struct {
	recSender
	yields int
	sleep  time.Duration
}

func (s *yieldSender) Send(ctx context.Context, t eventlogger.EventType, payload interface{}) (eventlogger.Status, error) {
	for i := 0; i < s.yields; i++ {
		runtime.Gosched()
	}
	if s.sleep > 0 {
		time.Sleep(s.sleep)
	}
	return s.recSender.Send(ctx, t, payload)
}

// c17Concurrent: groups are gated sequentially, then several FlushAll / Close / expiring Process calls overlap
// while the Sender is slow. Every call succeeds (no faults), so once all have returned nothing may remain gated
// and each previously gated group must have been emitted exactly once.
func c17Concurrent(run *rt.Run) {
	r := run.Rand()
	ctx := context.Background()
	nh := run.N(300, 20000)
	for i := 0; i < nh && !run.Stop(); i++ {
		cr := r.Fork()
		e := &env{slowNow: int32(cr.Intn(4))}
		ys := &yieldSender{recSender: recSender{e}, yields: cr.Intn(4)}
		if cr.Intn(3) == 0 {
			ys.sleep = time.Duration(cr.Range(20, 300)) * time.Microsecond
		}
		f := &gated.Filter{Expiration: expiration * time.Second, NowFunc: e.now, Broker: ys}
		ids := []string{"a", "b", "c", "d", "e"}[:cr.Range(1, 5)]
		groups := map[string][]string{}
		n := 0
		for _, id := range ids {
			for k := cr.Range(1, 3); k > 0; k-- {
				tok := fmt.Sprintf("c%d-%s-%d", i, id, n)
				n++
				if _, err := f.Process(ctx, &eventlogger.Event{Type: "gated", Payload: &gp{ID: id, Tok: tok, env: e}}); err != nil {
					run.Inconclusive("gating an event failed: " + err.Error())
				}
				groups[id] = append(groups[id], tok)
			}
		}
		ncall := cr.Range(2, 4)
		kinds := make([]string, ncall)
		expiring := false
		for k := range kinds {
			kinds[k] = rt.Pick(cr, []string{"flushall", "flushall", "close", "expiring-process"})
			expiring = expiring || kinds[k] == "expiring-process"
		}
		if expiring {
			// every open group is past its expiry for the overlapping Process calls (and FlushAll/Close do not care)
			advance(e, 2*expiration+1)
		}
		run.Progress("C17 concurrent %d groups=%d calls=%v", i, len(ids), kinds)
		errs := make([]error, ncall)
		rets := make([]int64, ncall)
		bar := rt.NewBarrier(ncall)
		var wg sync.WaitGroup
		var extra sync.Map
		for k := range kinds {
			wg.Add(1)
			go func(k int) {
				defer wg.Done()
				bar.Wait()
				switch kinds[k] {
				case "flushall":
					errs[k] = f.FlushAll(ctx)
					rets[k] = rt.Tick()
				case "close":
					errs[k] = f.Close(ctx)
					rets[k] = rt.Tick()
				default:
					tok := fmt.Sprintf("c%d-x-%d", i, k)
					extra.Store(tok, true)
					_, errs[k] = f.Process(ctx, &eventlogger.Event{Type: "gated", Payload: &gp{ID: fmt.Sprintf("x%d", k), Tok: tok, env: e}})
				}
			}(k)
		}
		wg.Wait()
		failed := false
		for k, err := range errs {
			if err != nil {
				failed = true
				run.Violation("history-pattern:concurrent-flush-error", fmt.Sprintf("%s failed without any injected fault: %v", kinds[k], err), map[string]any{"calls": kinds})
			}
		}
		if failed {
			continue
		}
		// what the Sender received
		e.mu.Lock()
		sends := append([]sendCall(nil), e.sends...)
		e.mu.Unlock()
		emitted := map[string]int{}
		sentAt := map[string]int64{}
		var all []string
		for _, s := range sends {
			key := strings.Join(s.Toks, ",")
			emitted[key]++
			if _, seen := sentAt[key]; !seen {
				sentAt[key] = s.Seq
			}
			all = append(all, "["+key+"]")
		}
		sort.Strings(all)
		wit := map[string]any{"calls": kinds, "gated_before": groups, "sender_received": all, "sender_yields": ys.yields, "sender_sleep": ys.sleep.String()}
		// a FlushAll / Close that has returned successfully has left nothing gated: every group that was gated before
		// the calls began has reached the Sender by then (through this call or the one it waited for)
		for k, kind := range kinds {
			if kind != "flushall" && kind != "close" {
				continue
			}
			for _, id := range ids {
				key := strings.Join(groups[id], ",")
				if at, ok := sentAt[key]; ok && at > rets[k] {
					run.Violation("history-pattern:concurrent-flush-returned-early", fmt.Sprintf("%s returned nil at tick %d, but group %s [%s], gated before it was called, reached the Sender only at tick %d", kind, rets[k], id, key, at), wit)
					break
				}
			}
		}
		for _, id := range ids {
			key := strings.Join(groups[id], ",")
			switch c := emitted[key]; {
			case c == 0:
				run.Violation("history-pattern:concurrent-flush-lost", fmt.Sprintf("after overlapping %v all returned nil, group %s [%s] was never emitted", kinds, id, key), wit)
			case c > 1:
				run.Violation("history-pattern:concurrent-flush-duplicate", fmt.Sprintf("after overlapping %v all returned nil, group %s [%s] was emitted %d times", kinds, id, key, c), wit)
			}
			delete(emitted, key)
		}
		for key := range emitted {
			// what else may arrive: groups of the expiring Process calls' own events (flushed by a later FlushAll/Close)
			ok := true
			for _, tok := range strings.Split(key, ",") {
				if _, mine := extra.Load(tok); !mine {
					ok = false
				}
			}
			if !ok || emitted[key] > 1 {
				run.Violation("history-pattern:concurrent-flush-duplicate", fmt.Sprintf("after overlapping %v the Sender received [%s] (%d times), which is no group as gated", kinds, key, emitted[key]), wit)
			}
		}
		// nothing of the old groups lingers: a flush event per id returns itself only
		for _, id := range ids {
			tok := fmt.Sprintf("c%d-%s-probe", i, id)
			out, err := f.Process(ctx, &eventlogger.Event{Type: "gated", Payload: &gp{ID: id, Flush: true, Tok: tok, env: e}})
			var got []string
			if out != nil {
				if c, ok := out.Payload.(*composite); ok {
					got = c.Toks
				}
			}
			if err != nil || len(got) != 1 || got[0] != tok {
				run.Violation("history-pattern:concurrent-flush-lingering", fmt.Sprintf("after overlapping %v all returned nil the filter still holds events of %s: a flush event returned %v (err=%v)", kinds, id, got, err), wit)
			}
		}
		sort.Strings(kinds)
		run.Eval(fmt.Sprintf("conc|%d|%s", len(ids), strings.Join(kinds, "+")))
		run.Add("concurrent_flush_histories", 1)
	}
}

func advance(e *env, secs int64) { atomic.AddInt64(&e.clock, secs) }

// c11FirstEvents: the very first events of a fresh filter arrive from several senders at once (the filter
// initialises itself lazily inside Process); FlushAll afterwards must emit every accepted event exactly once.
func c11FirstEvents(run *rt.Run) {
	r := run.Rand()
	ctx := context.Background()
	n := run.N(4000, 150000)
	for i := 0; i < n && !run.Stop(); i++ {
		cr := r.Fork()
		e := &env{}
		f := &gated.Filter{Expiration: expiration * time.Second, NowFunc: e.now, Broker: &recSender{e}}
		ng := cr.Range(2, 8)
		var arrived int32
		var wg sync.WaitGroup
		errs := make([]error, ng)
		for g := 0; g < ng; g++ {
			wg.Add(1)
			id := rt.Pick(cr, []string{"a", "b", "c"})
			go func(g int, id string) {
				defer wg.Done()
				atomic.AddInt32(&arrived, 1)
				for atomic.LoadInt32(&arrived) < int32(ng) {
					runtime.Gosched()
				}
				_, errs[g] = f.Process(ctx, &eventlogger.Event{Type: "gated", Payload: &gp{ID: id, Tok: fmt.Sprintf("f%d-%d", i, g), env: e}})
			}(g, id)
		}
		wg.Wait()
		ferr := f.FlushAll(ctx)
		e.mu.Lock()
		seen := map[string]int{}
		for _, s := range e.sends {
			for _, t := range s.Toks {
				seen[t]++
			}
		}
		e.mu.Unlock()
		for g := 0; g < ng; g++ {
			tok := fmt.Sprintf("f%d-%d", i, g)
			if errs[g] == nil && ferr == nil && seen[tok] != 1 {
				run.Violation("history-pattern:first-events-"+map[bool]string{true: "lost", false: "duplicate"}[seen[tok] == 0],
					fmt.Sprintf("event %s was accepted as one of the first %d concurrent events of a fresh filter, FlushAll succeeded, but it was handed to the Broker %d times", tok, ng, seen[tok]),
					map[string]any{"senders": ng, "sender_received": seen})
				break
			}
		}
		run.Eval(fmt.Sprintf("first|%d", ng))
	}
}
