package gatedp

import (
	"context"
	"fmt"
	"runtime"
	"sort"
	"strconv"
	"strings"
	"sync"
	"sync/atomic"
	"time"

	"github.com/hashicorp/eventlogger"
	"github.com/hashicorp/eventlogger/filters/gated"

	"verifharness/internal/rt"
)

// tickClock is a clock on which time passes while the senders run: every reading is a new, later instant
// (one second per reading) and is attributed to the goroutine that made it. Frozen, it answers the instant it
// was set to. It is application code (the filter's NowFunc) and yields after reading, like env.now.
type tickClock struct {
	v      int64
	frozen int32
	yields int32
	mu     sync.Mutex
	by     map[int64][]int64 // goroutine id -> the instants it read
}

func gid() int64 {
	var buf [64]byte
	s := string(buf[:runtime.Stack(buf[:], false)])
	s = strings.TrimPrefix(s, "goroutine ")
	if i := strings.IndexByte(s, ' '); i > 0 {
		n, _ := strconv.ParseInt(s[:i], 10, 64)
		return n
	}
	return -1
}

func (c *tickClock) now() time.Time {
	if atomic.LoadInt32(&c.frozen) == 1 {
		return time.Unix(1_700_000_000+atomic.LoadInt64(&c.v), 0)
	}
	v := atomic.AddInt64(&c.v, 1)
	g := gid()
	c.mu.Lock()
	c.by[g] = append(c.by[g], v)
	c.mu.Unlock()
	for i := atomic.LoadInt32(&c.yields); i > 0; i-- {
		runtime.Gosched()
	}
	return time.Unix(1_700_000_000+v, 0)
}

// c17Overtake: several senders open one group each at the same moment while time passes (every clock reading is
// a later instant). The instant at which a group was opened is one of the instants its opening call read from
// the clock, so its expiry lies between the first and the last of them plus Expiration - on the pinned code it is
// the last one, which makes the bound exact. Afterwards the clock is stepped, frozen, through every such bound
// and a flush event of a fresh id (which gates nothing) is processed at each step: a group whose latest
// possible expiry lies before that instant must have reached the Broker by then, a group whose earliest possible
// expiry does not must not have. What decides is the order of the clock readings, not wall-clock time.
func c17Overtake(run *rt.Run) {
	r := run.Rand()
	ctx := context.Background()
	const exp = 1000 // seconds; far more than the readings of one concurrent phase
	nh := run.N(2500, 120000)
	for i := 0; i < nh && !run.Stop(); i++ {
		cr := r.Fork()
		e := &env{}
		clk := &tickClock{by: map[int64][]int64{}, yields: int32(cr.Intn(4))}
		f := &gated.Filter{Expiration: exp * time.Second, NowFunc: clk.now, Broker: &recSender{e}}
		// some groups are already open when the concurrent openers arrive (their scan reads the clock per group)
		pre := cr.Intn(3)
		type grp struct {
			id, tok string
			lo, hi  int64
		}
		var groups []*grp
		for k := 0; k < pre; k++ {
			g := &grp{id: fmt.Sprintf("p%d", k), tok: fmt.Sprintf("o%d-p%d", i, k)}
			before := atomic.LoadInt64(&clk.v)
			if _, err := f.Process(ctx, &eventlogger.Event{Type: "gated", Payload: &gp{ID: g.id, Tok: g.tok, env: e}}); err != nil {
				run.Inconclusive("gating an event failed: " + err.Error())
			}
			g.lo, g.hi = before+1, atomic.LoadInt64(&clk.v)
			groups = append(groups, g)
		}
		ng := cr.Range(2, 6)
		run.Progress("C17 overtake %d pre=%d openers=%d yields=%d", i, pre, ng, clk.yields)
		errs := make([]error, ng)
		gids := make([]int64, ng)
		var arrived int32
		var wg sync.WaitGroup
		for k := 0; k < ng; k++ {
			wg.Add(1)
			go func(k int) {
				defer wg.Done()
				gids[k] = gid()
				atomic.AddInt32(&arrived, 1)
				for atomic.LoadInt32(&arrived) < int32(ng) {
					runtime.Gosched()
				}
				_, errs[k] = f.Process(ctx, &eventlogger.Event{Type: "gated", Payload: &gp{ID: fmt.Sprintf("g%d", k), Tok: fmt.Sprintf("o%d-g%d", i, k), env: e}})
			}(k)
		}
		wg.Wait()
		bad := false
		for k := 0; k < ng; k++ {
			if errs[k] != nil {
				run.Violation("history-pattern:overtake-error", fmt.Sprintf("opening a group failed without any injected fault: %v", errs[k]), nil)
				bad = true
			}
		}
		if bad {
			continue
		}
		clk.mu.Lock()
		for k := 0; k < ng; k++ {
			rs := clk.by[gids[k]]
			if len(rs) == 0 {
				bad = true
				break
			}
			g := &grp{id: fmt.Sprintf("g%d", k), tok: fmt.Sprintf("o%d-g%d", i, k), lo: rs[0], hi: rs[len(rs)-1]}
			groups = append(groups, g)
		}
		clk.mu.Unlock()
		if bad {
			// an opening call that never read the clock: its expiry cannot be bounded from what was observed
			run.Inconclusive("an opening Process call made no clock reading attributable to its goroutine")
			continue
		}
		// how interleaved the readings of the openers were (pairs whose reading intervals overlap)
		overlap := 0
		for a := pre; a < len(groups); a++ {
			for b := a + 1; b < len(groups); b++ {
				if groups[a].lo < groups[b].hi && groups[b].lo < groups[a].hi {
					overlap++
				}
			}
		}
		atomic.StoreInt32(&clk.frozen, 1)
		var steps []int64
		for _, g := range groups {
			steps = append(steps, g.hi+exp+1)
		}
		sort.Slice(steps, func(a, b int) bool { return steps[a] < steps[b] })
		wit := func(T int64) map[string]any {
			var gs []string
			for _, g := range groups {
				gs = append(gs, fmt.Sprintf("%s: clock readings of its opening call %d..%d, expiry between %d and %d", g.id, g.lo, g.hi, g.lo+exp, g.hi+exp))
			}
			return map[string]any{"groups": gs, "probe_instant": T, "expiration": exp, "clock_yields": clk.yields}
		}
		for si, T := range steps {
			if si > 0 && steps[si-1] == T {
				continue
			}
			atomic.StoreInt64(&clk.v, T)
			ptok := fmt.Sprintf("o%d-probe%d", i, si)
			out, err := f.Process(ctx, &eventlogger.Event{Type: "gated", Payload: &gp{ID: fmt.Sprintf("probe%d", si), Flush: true, Tok: ptok, env: e}})
			if err != nil || out == nil {
				run.Violation("history-pattern:overtake-error", fmt.Sprintf("a flush event of a fresh id at instant %d failed or was swallowed: out=%v err=%v", T, out, err), wit(T))
				bad = true
				break
			}
			e.mu.Lock()
			sent := map[string]int{}
			for _, s := range e.sends {
				for _, t := range s.Toks {
					sent[t]++
				}
			}
			e.mu.Unlock()
			for _, g := range groups {
				switch {
				case g.hi+exp < T && sent[g.tok] == 0:
					run.Violation("history-pattern:overtake-expired-lingers", fmt.Sprintf("Process succeeded at instant %d; group %s was opened by a call whose clock readings were %d..%d, so it expired at %d at the latest - it is still gated", T, g.id, g.lo, g.hi, g.hi+exp), wit(T))
					bad = true
				case g.lo+exp >= T && sent[g.tok] > 0:
					run.Violation("history-pattern:overtake-early-emission", fmt.Sprintf("at instant %d group %s has been emitted, but the call that opened it read the clock at %d at the earliest, so it cannot expire before %d", T, g.id, g.lo, g.lo+exp+1), wit(T))
					bad = true
				}
			}
			if bad {
				break
			}
		}
		if bad {
			continue
		}
		if err := f.FlushAll(ctx); err != nil {
			run.Violation("history-pattern:overtake-error", "FlushAll failed without any injected fault: "+err.Error(), nil)
			continue
		}
		e.mu.Lock()
		sent := map[string]int{}
		for _, s := range e.sends {
			for _, t := range s.Toks {
				sent[t]++
			}
		}
		e.mu.Unlock()
		for _, g := range groups {
			if sent[g.tok] != 1 {
				run.Violation("history-pattern:overtake-conservation", fmt.Sprintf("group %s was emitted %d times over expiry steps and a final FlushAll", g.id, sent[g.tok]), wit(0))
				break
			}
		}
		run.Eval(fmt.Sprintf("overtake|pre%d|n%d|overlap%d", pre, ng, overlap))
		run.Add("overtake_histories", 1)
		run.Add("overtake_overlapping_opener_pairs", overlap)
	}
}
