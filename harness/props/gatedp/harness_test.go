// Package gatedp holds the monitors for gated.Filter (C11 conservation/grouping/order,
// C17 expiry/FlushAll/Close leave nothing behind).
package gatedp

import (
	"context"
	"errors"
	"fmt"
	"runtime"
	"strings"
	"sync"
	"sync/atomic"
	"time"

	"github.com/hashicorp/eventlogger"
	"github.com/hashicorp/eventlogger/filters/gated"

	"verifharness/internal/rt"
)

// env is the harness side of one filter under test: virtual clock, ComposeFrom
// recorder, recording Sender, failure injection.
type env struct {
	mu      sync.Mutex
	slowNow int32 // the clock function yields that often before it returns (concurrent workloads)
	clock   int64 // seconds
	step    int
	compose []composeCall
	sends   []sendCall
	// failure injection (1-based global call counts; 0 = never)
	composeFailAt int
	gateableAt    int
	sendFailAt    int
	composeCalls  int
	sendCalls     int
	// the context of the call that is running is cancelled by the Sender during its cancelAtSend-th Send
	// (after the composite was taken): what was delivered was delivered
	cancelAtSend int
	cancel       context.CancelFunc
}

type composeCall struct {
	Seq    int64
	Step   int
	Toks   []string
	IDs    []string
	Result string // ok err gateable
}

type sendCall struct {
	Seq      int64
	Step     int
	Toks     []string
	Typ      string
	Result   string // ok err
	Gateable bool
}

// now is the filter's clock. It is application code and may be slow: in the concurrent workloads (slowNow) it reads
// the clock, yields a few times and returns what it read, so that whatever the filter does around the call is
// interleaved with other callers.
func (e *env) now() time.Time {
	t := time.Unix(1_700_000_000+atomic.LoadInt64(&e.clock), 0)
	if n := atomic.LoadInt32(&e.slowNow); n > 0 {
		for i := int32(0); i < n; i++ {
			runtime.Gosched()
		}
	}
	return t
}

// gp is the Gateable payload of the harness.
type gp struct {
	ID    string
	Flush bool
	Tok   string
	Arr   int64 // arrival stamp (logical clock at the Process call)
	env   *env
}

func (p *gp) GetID() string    { return p.ID }
func (p *gp) FlushEvent() bool { return p.Flush }

// composite is what ComposeFrom returns: deliberately not Gateable.
type composite struct {
	Toks []string
	IDs  []string
}

// gcomposite is a Gateable composite (the forbidden kind), returned on command.
type gcomposite struct {
	composite
}

func (g *gcomposite) GetID() string    { return "gc" }
func (g *gcomposite) FlushEvent() bool { return false }
func (g *gcomposite) ComposeFrom([]*eventlogger.Event) (eventlogger.EventType, interface{}, error) {
	return "x", nil, errors.New("never")
}

var errCompose = errors.New("injected compose failure")
var errSend = errors.New("injected send failure")

// ComposeFrom records its argument list. The receiver is whatever payload the
// filter bound first; every payload of one scenario shares the same env.
func (p *gp) ComposeFrom(events []*eventlogger.Event) (eventlogger.EventType, interface{}, error) {
	e := p.env
	c := composeCall{Seq: rt.Tick()}
	for _, ev := range events {
		if g, ok := ev.Payload.(*gp); ok {
			c.Toks = append(c.Toks, g.Tok)
			c.IDs = append(c.IDs, g.ID)
		} else {
			c.Toks = append(c.Toks, fmt.Sprintf("<foreign %T>", ev.Payload))
			c.IDs = append(c.IDs, "?")
		}
	}
	e.mu.Lock()
	e.composeCalls++
	n := e.composeCalls
	c.Step = e.step
	c.Result = "ok"
	switch {
	case e.composeFailAt == n:
		c.Result = "err"
	case e.gateableAt == n:
		c.Result = "gateable"
	}
	e.compose = append(e.compose, c)
	e.mu.Unlock()
	comp := composite{Toks: c.Toks, IDs: c.IDs}
	switch c.Result {
	case "err":
		return "", nil, errCompose
	case "gateable":
		return "composite", &gcomposite{comp}, nil
	}
	return "composite", &comp, nil
}

// recSender is the filter's Broker.
type recSender struct{ e *env }

func (s *recSender) Send(ctx context.Context, t eventlogger.EventType, payload interface{}) (eventlogger.Status, error) {
	e := s.e
	c := sendCall{Seq: rt.Tick(), Typ: string(t)}
	switch p := payload.(type) {
	case *composite:
		c.Toks = p.Toks
	case *gcomposite:
		c.Toks = p.Toks
		c.Gateable = true
	default:
		c.Toks = []string{fmt.Sprintf("<foreign %T>", payload)}
	}
	if _, ok := payload.(gated.Gateable); ok {
		c.Gateable = true
	}
	e.mu.Lock()
	e.sendCalls++
	c.Step = e.step
	c.Result = "ok"
	if e.sendFailAt == e.sendCalls {
		c.Result = "err"
	}
	e.sends = append(e.sends, c)
	if e.cancelAtSend == e.sendCalls && e.cancel != nil {
		e.cancel()
	}
	e.mu.Unlock()
	if c.Result == "err" {
		return eventlogger.Status{}, errSend
	}
	return eventlogger.Status{}, nil
}

// ---- histories ------------------------------------------------------------------------------------

type gstep struct {
	Kind  string // ev ng adv flushall close emptyid nilev
	ID    string
	Flush bool
	Adv   int
}

func (s gstep) String() string {
	switch s.Kind {
	case "ev":
		if s.Flush {
			return "flush(" + s.ID + ")"
		}
		return "ev(" + s.ID + ")"
	case "adv":
		return fmt.Sprintf("adv(%ds)", s.Adv)
	}
	return s.Kind
}

type gconfig struct {
	Sender        bool
	ComposeFailAt int
	GateableAt    int
	SendFailAt    int
	CancelAtSend  int  // the Sender cancels the running call's context during its k-th Send
	DefaultExp    bool // Expiration left unset: the documented default (10 s, the same value the model uses) applies
}

func (c gconfig) String() string {
	s := fmt.Sprintf("sender=%v composeFailAt=%d gateableAt=%d sendFailAt=%d", c.Sender, c.ComposeFailAt, c.GateableAt, c.SendFailAt)
	if c.DefaultExp {
		s += " expiration=unset"
	}
	if c.CancelAtSend > 0 {
		s += fmt.Sprintf(" cancelAtSend=%d", c.CancelAtSend)
	}
	return s
}

func stepsString(h []gstep) string {
	var s []string
	for _, x := range h {
		s = append(s, x.String())
	}
	return strings.Join(s, " ")
}

const expiration = 10 // seconds

// stepResult is what one step returned at the API boundary.
type stepResult struct {
	Step         gstep
	Tok          string // token of the event sent in this step
	Err          error
	SamePtr      bool     // Process returned the very event it was given
	Nil          bool     // Process returned (nil, nil)
	CompToks     []string // Process returned a composite event with this list
	CompGateable bool
	NewEvent     bool
	Time         int64
	ComposeIdx   [2]int // compose calls made during this step: [from,to)
	SendIdx      [2]int
}

// session drives one real filter.
type session struct {
	e   *env
	f   *gated.Filter
	tok int
	res []stepResult
}

func newSession(cfg gconfig) *session {
	e := &env{composeFailAt: cfg.ComposeFailAt, gateableAt: cfg.GateableAt, sendFailAt: cfg.SendFailAt, cancelAtSend: cfg.CancelAtSend}
	f := &gated.Filter{Expiration: expiration * time.Second, NowFunc: e.now}
	if cfg.DefaultExp {
		f.Expiration = 0
	}
	if cfg.Sender {
		f.Broker = &recSender{e}
	}
	return &session{e: e, f: f}
}

func (s *session) do(st gstep) stepResult {
	e := s.e
	e.mu.Lock()
	e.step = len(s.res)
	c0, s0 := len(e.compose), len(e.sends)
	e.mu.Unlock()
	r := stepResult{Step: st, Time: atomic.LoadInt64(&e.clock)}
	ctx, cancel := context.WithCancel(context.Background())
	defer cancel()
	e.mu.Lock()
	e.cancel = cancel
	e.mu.Unlock()
	proc := func(ev *eventlogger.Event) {
		out, err := s.f.Process(ctx, ev)
		r.Err = err
		switch {
		case out == nil:
			r.Nil = true
		case out == ev:
			r.SamePtr = true
		default:
			r.NewEvent = true
			switch p := out.Payload.(type) {
			case *composite:
				r.CompToks = p.Toks
			case *gcomposite:
				r.CompToks = p.Toks
				r.CompGateable = true
			}
		}
	}
	switch st.Kind {
	case "ev":
		s.tok++
		r.Tok = fmt.Sprintf("%s%d", st.ID, s.tok)
		// creation stamps are the producers' business: they neither increase with arrival nor differ between events
		proc(&eventlogger.Event{Type: "gated", CreatedAt: time.Unix(1_700_000_000+int64(rt.Mix(uint64(s.tok), 7)%5)*100, 0), Payload: &gp{ID: st.ID, Flush: st.Flush, Tok: r.Tok, Arr: rt.Tick(), env: e}})
	case "emptyid":
		s.tok++
		r.Tok = fmt.Sprintf("empty%d", s.tok)
		proc(&eventlogger.Event{Type: "gated", Payload: &gp{ID: "", Flush: st.Flush, Tok: r.Tok, env: e}})
	case "ng":
		proc(&eventlogger.Event{Type: "plain", Payload: "not gateable"})
	case "nilev":
		out, err := s.f.Process(ctx, nil)
		r.Err, r.Nil = err, out == nil
	case "adv":
		atomic.AddInt64(&e.clock, int64(st.Adv))
	case "flushall":
		r.Err = s.f.FlushAll(ctx)
	case "close":
		r.Err = s.f.Close(ctx)
	case "broker-on":
		// the exported Broker field is set or cleared between events
		s.f.Broker = &recSender{e}
	case "broker-off":
		s.f.Broker = nil
	}
	e.mu.Lock()
	r.ComposeIdx = [2]int{c0, len(e.compose)}
	r.SendIdx = [2]int{s0, len(e.sends)}
	e.mu.Unlock()
	s.res = append(s.res, r)
	return r
}

// ---- reference model (timing included): C17's specification --------------------------------------

type mgroup struct {
	id   string
	toks []string
	exp  int64
}

type gmodel struct {
	cfg     gconfig
	groups  []*mgroup // open order
	compose int
	sends   int
}

type mexpect struct {
	Err      bool
	Compose  [][]string // ComposeFrom argument lists expected during the step, in order
	Sent     [][]string // composites the Sender must receive, in order
	Returned []string   // composite returned by Process (flush)
	Accepted bool
}

func (m *gmodel) find(id string) int {
	for i, g := range m.groups {
		if g.id == id {
			return i
		}
	}
	return -1
}

// emit composes group i (removing it) and sends it; returns false when an injected failure stops the caller.
func (m *gmodel) emit(i int, x *mexpect) bool {
	g := m.groups[i]
	m.groups = append(m.groups[:i], m.groups[i+1:]...)
	m.compose++
	x.Compose = append(x.Compose, g.toks)
	if m.cfg.ComposeFailAt == m.compose || m.cfg.GateableAt == m.compose {
		return false
	}
	if !m.cfg.Sender {
		return true // dropped
	}
	m.sends++
	x.Sent = append(x.Sent, g.toks)
	return m.cfg.SendFailAt != m.sends
}

func (m *gmodel) step(st gstep, tok string, now int64) mexpect {
	var x mexpect
	switch st.Kind {
	case "ev":
		// expired groups first, oldest first
		for len(m.groups) > 0 && now > m.groups[0].exp {
			if !m.emit(0, &x) {
				x.Err = true
				return x
			}
		}
		i := m.find(st.ID)
		if i < 0 {
			m.groups = append(m.groups, &mgroup{id: st.ID, exp: now + expiration})
			i = len(m.groups) - 1
		}
		m.groups[i].toks = append(append([]string(nil), m.groups[i].toks...), tok)
		x.Accepted = true
		if st.Flush {
			g := m.groups[i]
			m.groups = append(m.groups[:i], m.groups[i+1:]...)
			m.compose++
			x.Compose = append(x.Compose, g.toks)
			if m.cfg.ComposeFailAt == m.compose {
				x.Err = true
				return x
			}
			x.Returned = g.toks
		}
	case "emptyid", "nilev":
		x.Err = true
	case "broker-on":
		m.cfg.Sender = true
	case "broker-off":
		m.cfg.Sender = false
	case "flushall", "close":
		if !m.cfg.Sender {
			m.groups = nil
			return x
		}
		for len(m.groups) > 0 {
			if !m.emit(0, &x) {
				x.Err = true
				return x
			}
		}
	}
	return x
}

func eqLists(a, b [][]string) bool {
	if len(a) != len(b) {
		return false
	}
	for i := range a {
		if strings.Join(a[i], ",") != strings.Join(b[i], ",") {
			return false
		}
	}
	return true
}
