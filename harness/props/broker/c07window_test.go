//go:build verif

package broker

import (
	"context"
	"errors"
	"fmt"
	"sync/atomic"
	"time"

	"github.com/hashicorp/eventlogger"

	"verifharness/internal/rt"
)

// cwNode is a node with a Close the scenario controls.
type cwNode struct {
	name     string
	typ      eventlogger.NodeType
	n        int64
	closes   int64
	onClose  func()
	closeErr error
	onType   func()
}

func (c *cwNode) Process(_ context.Context, e *eventlogger.Event) (*eventlogger.Event, error) {
	atomic.AddInt64(&c.n, 1)
	if c.typ == eventlogger.NodeTypeSink {
		return nil, nil
	}
	return e, nil
}
func (c *cwNode) Reopen() error              { return nil }
func (c *cwNode) Type() eventlogger.NodeType {
	if c.onType != nil {
		c.onType()
	}
	return c.typ
}
func (c *cwNode) Close(context.Context) error {
	atomic.AddInt64(&c.closes, 1)
	if c.onClose != nil {
		c.onClose()
	}
	return c.closeErr
}

// c07CloseWindow: the library closes removed nodes after it has released its lock, so that a closing node may use
// the Broker.  A registration made from inside that Close (the removed id is free then) is a registration like any
// other: made with DenyOverwrite it must refuse every later registration and keep working, made with
// AllowOverwrite/default it can be overwritten - whatever the Close that was running around it returns.
func c07CloseWindow(run *rt.Run) {
	ctx := context.Background()
	F, M, K := eventlogger.NodeTypeFilter, eventlogger.NodeTypeFormatter, eventlogger.NodeTypeSink
	for _, removal := range []string{"RemoveNode", "RemovePipelineAndNodes"} {
		for _, closeFails := range []bool{false, true} {
			for _, pol := range []string{"DenyOverwrite", "AllowOverwrite", ""} {
				for _, closer := range []string{"f", "m", "k"} {
					desc := fmt.Sprintf("close window: %s, Close of %s fails=%v, registration with policy %q made from inside Close", removal, closer, closeFails, pol)
					run.Progress("C07 %s", desc)
					b, err := eventlogger.NewBroker()
					if err != nil {
						run.Inconclusive(err.Error())
						return
					}
					old := map[string]*cwNode{"f": {name: "old-f", typ: F}, "m": {name: "old-m", typ: M}, "k": {name: "old-k", typ: K}}
					neu := map[string]*cwNode{"f": {name: "new-f", typ: F}, "m": {name: "new-m", typ: M}, "k": {name: "new-k", typ: K}}
					for id, n := range old {
						b.RegisterNode(eventlogger.NodeID(id), n)
					}
					ids := []eventlogger.NodeID{"f", "m", "k"}
					var inWindow []string
					var winErr error
					old[closer].closeErr = nil
					if closeFails {
						old[closer].closeErr = errors.New("close failed")
					}
					old[closer].onClose = func() {
						if removal == "RemoveNode" {
							winErr = b.RegisterNode(eventlogger.NodeID(closer), neu[closer], policyOpts(true, pol)...)
							inWindow = append(inWindow, "RegisterNode("+closer+")")
							return
						}
						for id, n := range neu {
							if e := b.RegisterNode(eventlogger.NodeID(id), n, policyOpts(true, pol)...); e != nil && winErr == nil {
								winErr = e
							}
						}
						if e := b.RegisterPipeline(eventlogger.Pipeline{EventType: "t0", PipelineID: "p0", NodeIDs: ids}, policyOpts(false, pol)...); e != nil && winErr == nil {
							winErr = e
						}
						inWindow = append(inWindow, "RegisterNode(f,m,k)", "RegisterPipeline(t0/p0)")
					}
					wit := func() any { return []string{desc, fmt.Sprintf("in window: %v -> %v", inWindow, winErr)} }
					var rmErr error
					if removal == "RemoveNode" {
						rmErr = b.RemoveNode(ctx, eventlogger.NodeID(closer))
					} else {
						b.RegisterPipeline(eventlogger.Pipeline{EventType: "t0", PipelineID: "p0", NodeIDs: ids})
						_, rmErr = b.RemovePipelineAndNodes(ctx, "t0", "p0")
					}
					if len(inWindow) == 0 {
						run.Add("close_window_not_reached", 1)
						continue
					}
					if winErr != nil {
						// the statement does not say the id is free while its node is being closed
						run.Add("close_window_registration_refused", 1)
						continue
					}
					run.Add("close_window_scenarios", 1)
					run.Eval(fmt.Sprintf("w|%s|%v|%s|%s|%v", removal, closeFails, pol, closer, rmErr != nil))
					// what the ids carry now
					spare := &cwNode{name: "spare", typ: neu[closer].typ}
					if removal == "RemoveNode" {
						// route through the id: the object registered inside the window is what a pipeline gets
						for id, n := range old {
							if id != closer {
								b.RegisterNode(eventlogger.NodeID(id), n)
							}
						}
						if e := b.RegisterPipeline(eventlogger.Pipeline{EventType: "t0", PipelineID: "p0", NodeIDs: ids}); e != nil {
							run.Violation("history-pattern:close-window:pipeline-refused", "a pipeline over the id registered from inside Close is refused: "+e.Error(), wit())
							continue
						}
					}
					b.Send(ctx, "t0", "x")
					if atomic.LoadInt64(&neu[closer].n) != 1 || atomic.LoadInt64(&old[closer].n) != 0 {
						run.Violation("history-pattern:close-window:original-not-working", fmt.Sprintf("the registration made from inside Close returned nil, yet a Send is processed %d times by that node and %d times by the removed one", neu[closer].n, old[closer].n), wit())
						continue
					}
					e2 := b.RegisterNode(eventlogger.NodeID(closer), spare)
					switch {
					case pol == "DenyOverwrite" && e2 == nil:
						run.Violation("history-pattern:close-window:deny-overwritten", "node id "+closer+" was registered with DenyOverwrite from inside Close (nil), yet a later registration under it succeeds", wit())
						continue
					case pol != "DenyOverwrite" && e2 != nil:
						run.Violation("history-pattern:close-window:allow-refused", "node id "+closer+" was registered with policy '"+pol+"' from inside Close, yet a later registration under it fails: "+e2.Error(), wit())
						continue
					}
					if removal == "RemovePipelineAndNodes" {
						e3 := b.RegisterPipeline(eventlogger.Pipeline{EventType: "t0", PipelineID: "p0", NodeIDs: ids})
						switch {
						case pol == "DenyOverwrite" && e3 == nil:
							run.Violation("history-pattern:close-window:deny-overwritten", "pipeline t0/p0 was registered with DenyOverwrite from inside Close (nil), yet a later registration under it succeeds", wit())
						case pol != "DenyOverwrite" && e3 != nil:
							run.Violation("history-pattern:close-window:allow-refused", "pipeline t0/p0 was registered with policy '"+pol+"' from inside Close, yet a later registration under it fails: "+e3.Error(), wit())
						}
					}
				}
			}
		}
	}
}

// c05CloseWindow: RegisterPipeline called from inside the Close of a node that RemoveNode is closing. Whether it
// succeeds is the library's business (is the node still registered at that instant?), but the two calls have to
// agree: a pipeline that was registered has all its nodes registered afterwards, and a node that was removed
// cannot have been accepted as a member of a pipeline.
func c05CloseWindow(run *rt.Run) {
	ctx := context.Background()
	F, M, K := eventlogger.NodeTypeFilter, eventlogger.NodeTypeFormatter, eventlogger.NodeTypeSink
	for _, closeFails := range []bool{false, true} {
		for _, closer := range []string{"f", "m", "k"} {
			desc := fmt.Sprintf("close window: RemoveNode(%s), Close fails=%v, RegisterPipeline(t0/p0,[f,m,k]) made from inside Close", closer, closeFails)
			run.Progress("C05 %s", desc)
			b, err := eventlogger.NewBroker()
			if err != nil {
				run.Inconclusive(err.Error())
				return
			}
			nodes := map[string]*cwNode{"f": {name: "f", typ: F}, "m": {name: "m", typ: M}, "k": {name: "k", typ: K}}
			for id, n := range nodes {
				b.RegisterNode(eventlogger.NodeID(id), n)
			}
			def := eventlogger.Pipeline{EventType: "t0", PipelineID: "p0", NodeIDs: []eventlogger.NodeID{"f", "m", "k"}}
			reached := false
			var winErr error
			if closeFails {
				nodes[closer].closeErr = errors.New("close failed")
			}
			nodes[closer].onClose = func() {
				reached = true
				winErr = b.RegisterPipeline(def)
			}
			rmErr := b.RemoveNode(ctx, eventlogger.NodeID(closer))
			nodes[closer].onClose = nil
			if !reached {
				run.Add("close_window_not_reached", 1)
				continue
			}
			run.Add("close_window_scenarios", 1)
			run.Eval(fmt.Sprintf("w5|%v|%s|%v|%v", closeFails, closer, winErr == nil, rmErr == nil))
			wit := func() any {
				return []string{desc, fmt.Sprintf("RegisterPipeline inside Close -> %v", winErr), fmt.Sprintf("RemoveNode -> %v", rmErr)}
			}
			again := b.RegisterPipeline(def)
			if winErr == nil {
				// the pipeline was accepted: each of its nodes is registered, so the same definition is acceptable again
				if again != nil {
					run.Violation("history-pattern:close-window:pipeline-with-missing-node", "RegisterPipeline made from inside Close returned nil, yet registering the same definition again afterwards fails: "+again.Error(), wit())
					continue
				}
				st, serr := b.Send(ctx, "t0", "x")
				if n := atomic.LoadInt64(&nodes["k"].n); n != 1 {
					run.Violation("history-pattern:close-window:pipeline-with-missing-node", fmt.Sprintf("the pipeline registered from inside Close delivers to its sink %d times (Send: %v, %v)", n, st.Complete(), serr), wit())
				}
				continue
			}
			// the pipeline was refused: then the node was gone already, and nothing brought it back
			if again == nil && rmErr == nil {
				run.Violation("history-pattern:close-window:removed-node-accepted", "RemoveNode("+closer+") returned nil and the registration made while it was closing was refused, yet the same definition is accepted afterwards although nobody registered the node again", wit())
			}
		}
	}
}


// c07RegistrationWindow: RegisterNode(f, new) arrives while RegisterPipeline(t0/p0 -> version 2, listing f) is
// running node code (Type() of one of its nodes, called while the registration is validated). If the library lets
// the node registration complete there, and a Send made after it returned is still processed by version 1, then
// version 2 takes effect after the re-registration of f - and must use the new f. (On a library that keeps the
// registry locked while it validates, RegisterNode simply waits; nothing is judged then.)
func c07RegistrationWindow(run *rt.Run) {
	ctx := context.Background()
	F, M, K := eventlogger.NodeTypeFilter, eventlogger.NodeTypeFormatter, eventlogger.NodeTypeSink
	for it := 0; it < 6 && !run.Stop(); it++ {
		b, err := eventlogger.NewBroker()
		if err != nil {
			run.Inconclusive(err.Error())
			return
		}
		a1, a2 := &cwNode{name: "a1", typ: F}, &cwNode{name: "a2", typ: F}
		fOld, fNew := &cwNode{name: "f-old", typ: F}, &cwNode{name: "f-new", typ: F}
		m, k1, k2 := &cwNode{name: "m", typ: M}, &cwNode{name: "k1", typ: K}, &cwNode{name: "k2", typ: K}
		for id, n := range map[string]*cwNode{"a1": a1, "a2": a2, "f": fOld, "m": m, "k1": k1, "k2": k2} {
			b.RegisterNode(eventlogger.NodeID(id), n)
		}
		if err := b.RegisterPipeline(eventlogger.Pipeline{EventType: "t0", PipelineID: "p0", NodeIDs: []eventlogger.NodeID{"a1", "f", "m", "k1"}}); err != nil {
			run.Inconclusive(err.Error())
			return
		}
		var fired int32
		var bErr error
		inWindow, send1v1 := false, false
		armed := []*cwNode{k2, m, a2}[it%3]
		armed.onType = func() {
			// (Type() is called again while the Send below is processed: only the first call opens the window)
			if !atomic.CompareAndSwapInt32(&fired, 0, 1) {
				return
			}
			func() {
				done := make(chan struct{})
				go func() {
					bErr = b.RegisterNode("f", fNew)
					close(done)
				}()
				select {
				case <-done:
					inWindow = true
					b.Send(ctx, "t0", "send-1")
					send1v1 = atomic.LoadInt64(&a1.n) == 1 && atomic.LoadInt64(&a2.n) == 0
				case <-time.After(20 * time.Millisecond):
					// the registry is locked while the registration is validated: the node registration waits
				}
			}()
		}
		rpErr := b.RegisterPipeline(eventlogger.Pipeline{EventType: "t0", PipelineID: "p0", NodeIDs: []eventlogger.NodeID{"a2", "f", "m", "k2"}})
		armed.onType = nil
		run.Eval(fmt.Sprintf("regwindow|%s|%v", armed.name, inWindow))
		if !inWindow || bErr != nil || rpErr != nil || !send1v1 {
			run.Add("registration_window_not_open", 1)
			continue
		}
		run.Add("registration_window_open", 1)
		oldBefore, newBefore := atomic.LoadInt64(&fOld.n), atomic.LoadInt64(&fNew.n)
		b.Send(ctx, "t0", "send-2")
		if atomic.LoadInt64(&a2.n) == 1 && atomic.LoadInt64(&fOld.n) == oldBefore+1 && atomic.LoadInt64(&fNew.n) == newBefore {
			run.Violation("history-pattern:registration-window:replaced-node-used", "RegisterNode(f, new) returned while RegisterPipeline(t0/p0, version 2) was validating; a Send after that was still processed by version 1, so version 2 took effect after the re-registration of f - yet version 2 delivers to the replaced node",
				[]string{"node whose Type() opened the window: " + armed.name})
		}
	}
}
