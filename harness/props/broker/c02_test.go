package broker

import (
	"context"
	"errors"
	"fmt"
	"testing"
	"time"

	"github.com/hashicorp/eventlogger"

	"verifharness/internal/rt"
)

// thresholds in force per type, as the harness set them (sequential model).
type thrModel struct {
	thr, sinks map[string]int
	set        map[string]bool
}

func newThrModel() *thrModel {
	return &thrModel{thr: map[string]int{}, sinks: map[string]int{}, set: map[string]bool{}}
}

// checkStatus is C02's oracle for one Send.
func checkStatus(run *rt.Run, w *World, o *SendObs, thr, thrSinks int, ctxInfo any) {
	wit := func() any {
		var warn []string
		for _, e := range o.Status.Warnings {
			warn = append(warn, fmt.Sprint(e))
		}
		return map[string]any{"send": o.SendID, "type": o.Type, "cancel_at": o.CancelAt, "cancel_point": o.CancelPt,
			"thresholds": []int{thr, thrSinks}, "complete": idsToStrings(o.Status.Complete()), "complete_sinks": idsToStrings(o.Status.CompleteSinks()),
			"warnings": warn, "err": fmt.Sprint(o.Err), "expected_traversals": describeExpected(o.Expected), "observed": describeEntries(o.Entries), "ctx": ctxInfo}
	}
	complete := idsToStrings(o.Status.Complete())
	sinks := idsToStrings(o.Status.CompleteSinks())

	// "what the pipelines did" is taken from the node log; the model's expected traversals are only
	// used to interpret it, so they must agree with the log first (if they do not, that is C01's
	// subject, not an accounting failure).
	if ok, _ := decompose(o.Expected, append([]*Entry(nil), o.Entries...), !o.Cancelled); !ok {
		// one clause does not need the node log: with a context that is never cancelled the Status has one
		// entry per *registered* pipeline
		if !o.Cancelled && len(complete)+len(o.Status.Warnings) != len(o.Expected) {
			run.Violation("history-pattern:accounting", fmt.Sprintf("completes(%d)+warnings(%d) != registered pipelines(%d) (the node log does not match the registry either)", len(complete), len(o.Status.Warnings), len(o.Expected)), wit())
			return
		}
		run.Inconclusive("the observed traversals differ from the registry model (C01's subject); status not judged for this Send")
		return
	}

	// what really happened, from the node log alone: an invocation ended a traversal successfully when
	// it returned no error and either dropped the event or returned an event that no node received
	// afterwards (the log is complete: it is read after every goroutine of the Send has finished).
	var okIDs, okSinkIDs []string
	var logErrs []error
	for _, e := range o.Entries {
		if e.Ret == 0 || e.RetErr != nil || e.Ret > o.Ret {
			continue
		}
		terminal := e.RetEv == nil
		if !terminal {
			terminal = true
			for _, x := range o.Entries {
				if x != e && x.Ev == e.RetEv && x.Call > e.Ret {
					terminal = false
					break
				}
			}
		}
		if terminal {
			okIDs = append(okIDs, string(e.Node.ID))
			if e.Node.Typ == eventlogger.NodeTypeSink {
				okSinkIDs = append(okSinkIDs, string(e.Node.ID))
			}
		}
	}
	for _, e := range o.Entries {
		if e.RetErr != nil && e.Ret != 0 && e.Ret <= o.Ret {
			logErrs = append(logErrs, e.RetErr)
		}
	}
	// complete-sinks is exactly the sink sub-multiset of complete. Whether a reported id stands for a sink is read
	// off the node objects that ended a traversal under that id in this Send (an id does not fix a node type: it
	// may have been re-registered, and older pipeline versions keep the objects they captured).
	{
		sinkEnd, otherEnd := map[string]int{}, map[string]int{}
		for _, id := range okIDs {
			otherEnd[id]++
		}
		for _, id := range okSinkIDs {
			sinkEnd[id]++
			otherEnd[id]--
		}
		nComplete, nSinks := map[string]int{}, map[string]int{}
		for _, id := range complete {
			nComplete[id]++
		}
		for _, id := range sinks {
			nSinks[id]++
		}
		for id, n := range nSinks {
			if n > nComplete[id] || n > sinkEnd[id] {
				run.Violation("history-pattern:complete-sinks", fmt.Sprintf("CompleteSinks names %s %d times; Complete names it %d times and %d traversals ended successfully at a sink registered under that id", id, n, nComplete[id], sinkEnd[id]), wit())
				break
			}
		}
		// an id under which only sink-typed node objects ran in this Send: each of its completes is a sink's,
		// cancelled or not (the two lists are filled from one report per traversal)
		onlySinks := map[string]bool{}
		for _, e := range o.Entries {
			id := string(e.Node.ID)
			if _, seen := onlySinks[id]; !seen {
				onlySinks[id] = true
			}
			if e.Node.Typ != eventlogger.NodeTypeSink {
				onlySinks[id] = false
			}
		}
		for id, n := range nComplete {
			if onlySinks[id] && nSinks[id] != n {
				run.Violation("history-pattern:complete-sinks", fmt.Sprintf("Complete names %s %d times and only sinks ran under that id in this Send, yet CompleteSinks names it %d times", id, n, nSinks[id]), wit())
				break
			}
		}
		for id, n := range nComplete {
			if n-nSinks[id] > otherEnd[id] && !o.Cancelled {
				run.Violation("history-pattern:complete-sinks", fmt.Sprintf("Complete names %s %d times, CompleteSinks %d times, but only %d traversals ended successfully at a node under that id that is not a sink", id, n, nSinks[id], otherEnd[id]), wit())
				break
			}
		}
	}
	// warnings: errors really returned by nodes during this Send, each at most once
	seenW := map[error]int{}
	for _, werr := range o.Status.Warnings {
		seenW[werr]++
		found := false
		for _, le := range logErrs {
			if le == werr {
				found = true
			}
		}
		if !found {
			run.Violation("history-pattern:invented-warning", "a warning is not an error value returned by a node during this Send", wit())
		}
		if seenW[werr] > 1 {
			run.Violation("history-pattern:duplicate-warning", "the same node error is reported twice", wit())
		}
	}
	if !o.Cancelled {
		var expC, expS []string
		nerr := 0
		for _, tr := range o.Expected {
			if tr.Complete != "" {
				expC = append(expC, tr.Complete)
				if tr.IsSink {
					expS = append(expS, tr.Complete)
				}
			} else {
				nerr++
			}
		}
		if !multisetEq(complete, expC) {
			run.Violation("history-pattern:complete", fmt.Sprintf("Complete %v differs from the traversals that ended successfully %v", complete, expC), wit())
		}
		if !multisetEq(sinks, expS) {
			run.Violation("history-pattern:complete-sinks", fmt.Sprintf("CompleteSinks %v differs from the sinks that ended successfully %v", sinks, expS), wit())
		}
		if len(o.Status.Warnings) != nerr || len(logErrs) != nerr {
			run.Violation("history-pattern:warnings", fmt.Sprintf("%d warnings reported, %d node errors logged, %d pipelines failed", len(o.Status.Warnings), len(logErrs), nerr), wit())
		}
		if len(complete)+len(o.Status.Warnings) != len(o.Expected) {
			run.Violation("history-pattern:accounting", fmt.Sprintf("completes(%d)+warnings(%d) != pipelines(%d)", len(complete), len(o.Status.Warnings), len(o.Expected)), wit())
		}
	} else {
		if !multisetSub(complete, okIDs) {
			run.Violation("history-pattern:invented-complete", fmt.Sprintf("Complete %v reports traversals that did not end successfully (really ended: %v)", complete, okIDs), wit())
		}
		if !multisetSub(sinks, okSinkIDs) {
			run.Violation("history-pattern:invented-complete", fmt.Sprintf("CompleteSinks %v reports sinks that did not end successfully (really ended: %v)", sinks, okSinkIDs), wit())
		}
	}
	// error iff thresholds not met, on the returned status
	wantErr := len(complete) < thr || len(sinks) < thrSinks
	if wantErr != (o.Err != nil) {
		run.Violation("history-pattern:threshold-error", fmt.Sprintf("err=%v but completes=%d (threshold %d) sinks=%d (threshold %d)", o.Err, len(complete), thr, len(sinks), thrSinks), wit())
	}
	if o.Err != nil {
		if o.Cancelled && !errors.Is(o.Err, context.Canceled) {
			run.Violation("history-pattern:ctx-error-not-wrapped", "Send failed after the context was done but the error does not wrap the context's error", wit())
		}
		if !o.Cancelled && isCtxErr(o.Err) {
			run.Violation("history-pattern:ctx-error-invented", "Send's error wraps a context error although the context was never cancelled", wit())
		}
	}
}

// fixedStyle gives nodes one deterministic behaviour.
func fixedBeh(b Beh) [4]int {
	var w [4]int
	w[b] = 1
	return w
}

// outcome codes for one pipeline
const (
	ocSuccess = iota
	ocFiltered
	ocErrFilter
	ocErrSink
	ocErrFormatter
	numOutcomes
)

// buildOutcomeWorld registers n pipelines for type "t0" with the given outcomes.
// sharedSink: all pipelines end in the same sink id.
func buildOutcomeWorld(r *rt.Rand, outcomes []int, sharedSink bool) (*World, []Op) {
	w := NewWorld(r.Fork())
	var ops []Op
	reg := func(id string, nt eventlogger.NodeType, b Beh) {
		n := NewRecNode(w.Log, id, nt, r.Uint64(), fixedBeh(b))
		if err := w.B.RegisterNode(eventlogger.NodeID(id), n); err != nil {
			panic(err)
		}
		w.M.RegisterNode(id, n, "")
		ops = append(ops, Op{Kind: "regnode", ID: id, NT: int(nt)})
	}
	for i, oc := range outcomes {
		f, m, k := fmt.Sprintf("f%d", i), fmt.Sprintf("m%d", i), fmt.Sprintf("k%d", i)
		if sharedSink {
			k = "k0"
		}
		fb, mb, kb := Pass, Pass, Drop
		switch oc {
		case ocFiltered:
			fb = Drop
		case ocErrFilter:
			fb = Fail
		case ocErrSink:
			kb = Fail
		case ocErrFormatter:
			mb = Fail
		}
		reg(f, eventlogger.NodeTypeFilter, fb)
		mt := eventlogger.NodeTypeFormatter
		if i%2 == 1 {
			mt = eventlogger.NodeTypeFormatterFilter
		}
		reg(m, mt, mb)
		if !sharedSink || i == 0 {
			if sharedSink {
				// a shared sink behaves per provenance: it fails only for pipelines that demand it.
				// provenance is identical for all pipelines here, so a shared sink has one behaviour.
				kb = Drop
				for _, o2 := range outcomes {
					if o2 == ocErrSink {
						kb = Fail
					}
				}
			}
			reg(k, eventlogger.NodeTypeSink, kb)
		}
		op := Op{Kind: "regpipe", Type: "t0", Pid: fmt.Sprintf("p%d", i), IDs: []string{f, m, k}}
		out := w.Apply(op, plainStyle)
		ops = append(ops, op)
		if out.Mismatch != "" {
			panic(out.Mismatch)
		}
	}
	return w, ops
}

func setThresholds(run *rt.Run, w *World, tm *thrModel, t string, thr, sinks int) {
	if err := w.B.SetSuccessThreshold(eventlogger.EventType(t), thr); err != nil {
		run.Violation("history-pattern:threshold-setter", fmt.Sprintf("SetSuccessThreshold(%s,%d) failed: %v", t, thr, err), nil)
	}
	if err := w.B.SetSuccessThresholdSinks(eventlogger.EventType(t), sinks); err != nil {
		run.Violation("history-pattern:threshold-setter", fmt.Sprintf("SetSuccessThresholdSinks(%s,%d) failed: %v", t, sinks, err), nil)
	}
	tm.thr[t], tm.sinks[t], tm.set[t] = thr, sinks, true
}

func TestC02(t *testing.T) {
	run := rt.Start(t, "C02")
	defer run.Finish()
	r := run.Rand()
	c02RemovalDuringDispatch(run, r.Fork())

	// ---- part A: outcome vectors x thresholds x cancel points ---------------------------------
	// every batch enumerates a slice of the vector space (vectors are assigned round-robin).
	type vec struct {
		oc     []int
		shared bool
	}
	var vecs []vec
	for n := 0; n <= 3; n++ {
		tot := 1
		for i := 0; i < n; i++ {
			tot *= numOutcomes
		}
		for x := 0; x < tot; x++ {
			oc := make([]int, n)
			y := x
			for i := range oc {
				oc[i] = y % numOutcomes
				y /= numOutcomes
			}
			vecs = append(vecs, vec{oc, false})
			if n >= 2 {
				vecs = append(vecs, vec{oc, true})
			}
		}
	}
	if !run.Quick() {
		// n = 4 sampled
		for i := 0; i < 400; i++ {
			oc := make([]int, 4)
			for j := range oc {
				oc[j] = r.Intn(numOutcomes)
			}
			vecs = append(vecs, vec{oc, r.Bool()})
		}
	}
	for vi, v := range vecs {
		if vi%run.NBatch != run.Batch {
			continue
		}
		if run.Stop() {
			return
		}
		cr := r.Fork()
		n := len(v.oc)
		w, ops := buildOutcomeWorld(cr, v.oc, v.shared)
		tm := newThrModel()
		run.Progress("C02 A vec=%v shared=%v", v.oc, v.shared)
		// thresholds: all pairs in 0..n+1 (thorough) or 4 sampled pairs (quick)
		var pairs [][2]int
		for a := 0; a <= n+1; a++ {
			for b := 0; b <= n+1; b++ {
				pairs = append(pairs, [2]int{a, b})
			}
		}
		if run.Quick() && len(pairs) > 4 {
			p := cr.Perm(len(pairs))
			pairs = [][2]int{pairs[p[0]], pairs[p[1]], pairs[p[2]], pairs[p[3]]}
		}
		first := true
		for _, pr := range pairs {
			setThresholds(run, w, tm, "t0", pr[0], pr[1])
			o := w.DoSend("t0", 0, nil, 0)
			o.Quiesce(w, 5*time.Second)
			checkStatus(run, w, o, pr[0], pr[1], opsString(ops))
			run.Eval(fmt.Sprintf("A|%v|%v|%v|nc", v.oc, v.shared, pr))
			run.SetAdd("traces", o.Trace.Sig())
			// cancel-point enumeration on the first pair of every vector (and all pairs in thorough)
			if first || !run.Quick() {
				N := o.Trace.Len()
				for k := -1; k <= N+1; k++ {
					if k == 0 || run.Stop() {
						continue
					}
					oc := w.DoSend("t0", k, cr.Fork(), 20)
					oc.Quiesce(w, 5*time.Second)
					if len(oc.Survivors) > 0 {
						run.Inconclusive("goroutines did not quiesce (C03's subject)")
						continue
					}
					checkStatus(run, w, oc, pr[0], pr[1], opsString(ops))
					run.Eval(fmt.Sprintf("A|%v|%v|%v|c%s", v.oc, v.shared, pr, oc.CancelPt))
					run.SetAdd("traces", oc.Trace.Sig())
					run.SetAdd("cancel_points", oc.CancelPt)
					run.Add("cancelled_sends", 1)
				}
			}
			first = false
			if run.NeedSample() && n >= 2 {
				run.Sample(map[string]any{"outcomes": v.oc, "shared_sink": v.shared, "thresholds": pr,
					"complete": idsToStrings(o.Status.Complete()), "complete_sinks": idsToStrings(o.Status.CompleteSinks()), "warnings": len(o.Status.Warnings), "err": fmt.Sprint(o.Err)})
			}
		}
	}

	// ---- part B: random configurations (C01's generator) with random thresholds -------------------
	ncfg := run.N(150, 8000)
	for c := 0; c < ncfg; c++ {
		if run.Stop() {
			break
		}
		cr := r.Fork()
		w := NewWorld(cr.Fork())
		a := cfgAlphabet(cr)
		style := randStyle(cr)
		ops, mis := buildConfig(w, a, style, cr, cr.Range(3, 12))
		run.Progress("C02 B cfg=%d ops=%v", c, opsString(ops))
		if mis != "" {
			run.Inconclusive("registry diverged from the model (C05/C06/C07's subject): " + mis)
			continue
		}
		tm := newThrModel()
		for _, ty := range a.Types {
			np := len(w.M.PipesOf(ty))
			thr, ts := cr.Intn(np+2), cr.Intn(np+2)
			setThresholds(run, w, tm, ty, thr, ts)
		}
		for _, ty := range a.Types {
			for s := 0; s < 2; s++ {
				cancelAt := 0
				if s == 1 {
					cancelAt = cr.Range(-1, 25)
				}
				o := w.DoSend(ty, cancelAt, cr.Fork(), 25)
				o.Quiesce(w, 5*time.Second)
				if len(o.Survivors) > 0 {
					run.Inconclusive("goroutines did not quiesce (C03's subject)")
					continue
				}
				checkStatus(run, w, o, tm.thr[ty], tm.sinks[ty], opsString(ops))
				sig := ""
				if len(o.Expected) >= 2 {
					sig = fmt.Sprintf("B|%s|%d,%d|%s", describeShape(o.Expected), tm.thr[ty], tm.sinks[ty], o.CancelPt)
				}
				run.Eval(sig)
				if o.Cancelled {
					run.SetAdd("cancel_points", o.CancelPt)
					run.Add("cancelled_sends", 1)
				}
			}
		}
	}

	// ---- part C: threshold setters/getters model ----------------------------------------------------
	nseq := run.N(200, 20000)
	for c := 0; c < nseq; c++ {
		if run.Stop() {
			return
		}
		cr := r.Fork()
		w := NewWorld(cr.Fork())
		types := []string{"t0", "t1", "t2"}
		// t0 and t1 get a pipeline, t2 never does
		for i, ty := range types[:2] {
			for _, op := range []Op{
				{Kind: "regnode", ID: fmt.Sprintf("m%d", i), NT: int(eventlogger.NodeTypeFormatter)},
				{Kind: "regnode", ID: fmt.Sprintf("k%d", i), NT: int(eventlogger.NodeTypeSink)},
				{Kind: "regpipe", Type: ty, Pid: "p", IDs: []string{fmt.Sprintf("m%d", i), fmt.Sprintf("k%d", i)}},
			} {
				w.Apply(op, plainStyle)
			}
		}
		tm := newThrModel()
		mentioned := map[string]bool{}
		var hist []string
		run.Progress("C02 C seq=%d", c)
		for step := 0; step < 16; step++ {
			ty := rt.Pick(cr, types)
			switch cr.Intn(9) {
			case 8: // a registration that fails (unknown node, malformed list): thresholds read back as last set
				ids := rt.Pick(cr, [][]string{{"ghost", "k0"}, {"k0"}, {"m0"}, {"k0", "m0"}})
				err := w.B.RegisterPipeline(eventlogger.Pipeline{PipelineID: "bad", EventType: eventlogger.EventType(ty), NodeIDs: toNodeIDs(ids)})
				hist = append(hist, fmt.Sprintf("RegisterPipeline(%s/bad,%v)->%v", ty, ids, err != nil))
				mentioned[ty] = true
				if err == nil {
					// (C05's subject; keep the registry as the model has it)
					w.B.RemovePipeline(eventlogger.EventType(ty), "bad")
				}
			case 6, 7: // registry change: thresholds must survive removal and re-registration of the type's pipelines
				if ty == "t2" {
					continue
				}
				i := int(ty[1] - '0')
				if len(w.M.PipesOf(ty)) > 0 {
					op := Op{Kind: rt.Pick(cr, []string{"rmpipe", "rmpipenodes"}), Type: ty, Pid: "p"}
					w.Apply(op, plainStyle)
					hist = append(hist, op.String())
				} else {
					for _, op := range []Op{
						{Kind: "regnode", ID: fmt.Sprintf("m%d", i), NT: int(eventlogger.NodeTypeFormatter)},
						{Kind: "regnode", ID: fmt.Sprintf("k%d", i), NT: int(eventlogger.NodeTypeSink)},
						{Kind: "regpipe", Type: ty, Pid: "p", IDs: []string{fmt.Sprintf("m%d", i), fmt.Sprintf("k%d", i)}},
					} {
						w.Apply(op, plainStyle)
					}
					hist = append(hist, "re-register "+ty+"/p")
				}
			case 0, 1: // setter
				v := cr.Range(-2, 3)
				sinks := cr.Bool()
				var err error
				if sinks {
					err = w.B.SetSuccessThresholdSinks(eventlogger.EventType(ty), v)
				} else {
					err = w.B.SetSuccessThreshold(eventlogger.EventType(ty), v)
				}
				hist = append(hist, fmt.Sprintf("set(%s,sinks=%v,%d)->%v", ty, sinks, v, err))
				if (v < 0) != (err != nil) {
					run.Violation("history-pattern:threshold-setter", "setter accepted a negative value or rejected a valid one", hist)
				}
				if v >= 0 && err == nil {
					if sinks {
						tm.sinks[ty] = v
					} else {
						tm.thr[ty] = v
					}
					tm.set[ty] = true
				}
			case 2: // empty type
				e1 := w.B.SetSuccessThreshold("", 1)
				e2 := w.B.SetSuccessThresholdSinks("", 1)
				hist = append(hist, "set(empty type)")
				if e1 == nil || e2 == nil {
					run.Violation("history-pattern:threshold-setter", "setter accepted an empty event type", hist)
				}
			case 3: // getters
				v, known := w.B.SuccessThreshold(eventlogger.EventType(ty))
				vs, knowns := w.B.SuccessThresholdSinks(eventlogger.EventType(ty))
				hist = append(hist, fmt.Sprintf("get(%s)->(%d,%v),(%d,%v)", ty, v, known, vs, knowns))
				if v != tm.thr[ty] || vs != tm.sinks[ty] {
					run.Violation("history-pattern:threshold-getter", fmt.Sprintf("getters read (%d,%d), last set (%d,%d)", v, vs, tm.thr[ty], tm.sinks[ty]), hist)
				}
				mustKnow := tm.set[ty] || ty != "t2"
				if mustKnow && (!known || !knowns) {
					run.Violation("history-pattern:threshold-getter", "getter reports a type with pipelines or thresholds as unknown", hist)
				}
				if !tm.set[ty] && ty == "t2" && !mentioned[ty] && (known || knowns) {
					run.Violation("history-pattern:threshold-getter", "getter reports a never-mentioned type as known", hist)
				}
				if uv, uk := w.B.SuccessThreshold("never-mentioned"); uv != 0 || uk {
					run.Violation("history-pattern:threshold-getter", "getter invents a threshold for an unknown type", hist)
				}
			default: // Send and compare with the thresholds in force for this type only
				if ty == "t2" || len(w.M.PipesOf(ty)) == 0 {
					continue
				}
				o := w.DoSend(ty, 0, nil, 0)
				o.Quiesce(w, 5*time.Second)
				hist = append(hist, fmt.Sprintf("send(%s)->err=%v", ty, o.Err))
				checkStatus(run, w, o, tm.thr[ty], tm.sinks[ty], hist)
			}
		}
		run.Eval(fmt.Sprintf("C|%v", hist))
		if c == 0 {
			run.Sample(map[string]any{"threshold_history": hist})
		}
	}
}
