// Package broker holds the monitors for the Broker/graph properties
// (C01-C07, C12, C20): recording nodes at the API boundary, a clean reference
// model of the registry written from the property statements, hook tracing.
package broker

import (
	"context"
	"errors"
	"fmt"
	"runtime"
	"sort"
	"strings"
	"sync"
	"sync/atomic"
	"time"

	"github.com/hashicorp/eventlogger"

	"verifharness/internal/rt"
)

// ---- payload -----------------------------------------------------------------

// Tok is the payload of every event the harness sends. S is the provenance:
// "<sendID>" for the sent payload, "<prov>><obj>" for an event created by node
// object <obj> out of an event with provenance <prov>.
type Tok struct{ S string }

func provOf(e *eventlogger.Event) string {
	if e == nil {
		return "<nil-event>"
	}
	if t, ok := e.Payload.(*Tok); ok && t != nil {
		return t.S
	}
	return fmt.Sprintf("<foreign:%T>", e.Payload)
}

func sendOf(prov string) string {
	if i := strings.Index(prov, ">"); i >= 0 {
		return prov[:i]
	}
	return prov
}

// ---- behaviours ----------------------------------------------------------------

type Beh int

const (
	Pass Beh = iota
	Replace
	Drop
	Fail
)

func (b Beh) String() string { return [...]string{"pass", "replace", "drop", "error"}[b] }

// NodeErr is the error a recording node returns: a fresh value per invocation,
// so that Status.Warnings can be matched by identity.
type NodeErr struct {
	Obj   string
	Prov  string
	Seq   int64
	Inner error // some node errors wrap a context error although the Send's context is alive
}

func (e *NodeErr) Unwrap() error { return e.Inner }

// multiErr is an error that wraps several (Unwrap() []error), as errors.Join's result and multierror values do.
type multiErr struct{ parts []error }

func (m *multiErr) Error() string   { return fmt.Sprintf("%d errors: %v", len(m.parts), m.parts) }
func (m *multiErr) Unwrap() []error { return m.parts }

func (e *NodeErr) Error() string {
	return fmt.Sprintf("node-error obj=%s prov=%s seq=%d", e.Obj, e.Prov, e.Seq)
}

// Entry is one observed node invocation.
type Entry struct {
	Call, Ret int64 // logical clock; Ret==0 while running
	Node      *RecNode
	Ev        *eventlogger.Event
	Prov      string
	EvType    eventlogger.EventType
	Payload   any
	Created   time.Time
	FmtNil    bool
	FmtLen    int
	CtxDone   bool // ctx already done when the node was invoked
	RetEv     *eventlogger.Event
	RetErr    error
	used      bool
	stepIdx   int // position in its traversal, set by decompose
}

func (e *Entry) String() string {
	return fmt.Sprintf("{%d-%d %s(%s) prov=%s ev=%p ret=%p err=%v}", e.Call, e.Ret, e.Node.Obj, e.Node.ID, e.Prov, e.Ev, e.RetEv, e.RetErr)
}

// Log collects the invocations of all recording nodes of one world.
type Log struct {
	mu      sync.Mutex
	entries []*Entry
	running int
	nilEvs  []*Entry // invocations with a nil event: they carry no provenance, so no Send's entry list holds them
}

func (l *Log) add(e *Entry) {
	l.mu.Lock()
	l.entries = append(l.entries, e)
	if e.Ev == nil {
		l.nilEvs = append(l.nilEvs, e)
	}
	l.running++
	l.mu.Unlock()
}

// TakeNilEvents returns (and forgets) the invocations that were handed a nil event.
func (l *Log) TakeNilEvents() []*Entry {
	l.mu.Lock()
	defer l.mu.Unlock()
	out := l.nilEvs
	l.nilEvs = nil
	return out
}

func (l *Log) done(e *Entry, ev *eventlogger.Event, err error) {
	l.mu.Lock()
	e.RetEv, e.RetErr = ev, err
	e.Ret = rt.Tick()
	l.running--
	l.mu.Unlock()
}

// Snapshot returns the entries logged so far (copies of the pointers).
func (l *Log) Snapshot() []*Entry {
	l.mu.Lock()
	defer l.mu.Unlock()
	return append([]*Entry(nil), l.entries...)
}

func (l *Log) Running() int {
	l.mu.Lock()
	defer l.mu.Unlock()
	return l.running
}

// ForSend returns the entries whose provenance belongs to the given send.
func (l *Log) ForSend(send string) []*Entry {
	l.mu.Lock()
	defer l.mu.Unlock()
	var out []*Entry
	for _, e := range l.entries {
		if sendOf(e.Prov) == send {
			out = append(out, e)
		}
	}
	return out
}

// ---- recording node --------------------------------------------------------------

var objCtr int64

// RecNode is a node object. Objects are never reused across registrations, so
// "closed twice" and "which version saw the event" are decided by identity.
type RecNode struct {
	Obj     string
	ID      eventlogger.NodeID
	Typ     eventlogger.NodeType
	behSeed uint64
	weights [4]int // pass, replace, drop, error
	log     *Log

	ReopenErr error
	CloseErr  error
	reopens   int64
	closes    int64
	CloseOps  []string // op labels under which Close ran
	cmu       sync.Mutex
	reg       eventlogger.Node // what is handed to RegisterNode: the node itself or a wrapper around it
	bypassed  int64            // Reopen calls that went to the wrapped node directly

	// optional callbacks
	OnProcess func(ctx context.Context, n *RecNode, e *eventlogger.Event, ent *Entry)
	OnClose   func(ctx context.Context, n *RecNode)
	OnReopen  func(n *RecNode)
}

func NewRecNode(log *Log, id string, typ eventlogger.NodeType, behSeed uint64, weights [4]int) *RecNode {
	return &RecNode{
		Obj: fmt.Sprintf("o%d", atomic.AddInt64(&objCtr, 1)), ID: eventlogger.NodeID(id), Typ: typ,
		behSeed: behSeed, weights: weights, log: log,
	}
}

// Behaviour is a pure function of (node object seed, provenance).
func (n *RecNode) Behaviour(prov string) Beh {
	tot := 0
	for _, w := range n.weights {
		tot += w
	}
	if tot == 0 {
		return Pass
	}
	x := int(rt.Mix(n.behSeed, rt.HashString(prov)) % uint64(tot))
	for i, w := range n.weights {
		if x < w {
			return Beh(i)
		}
		x -= w
	}
	return Pass
}

func (n *RecNode) Process(ctx context.Context, e *eventlogger.Event) (*eventlogger.Event, error) {
	ent := &Entry{Node: n, Ev: e, Prov: provOf(e), CtxDone: ctx.Err() != nil}
	if e != nil {
		ent.EvType, ent.Payload, ent.Created = e.Type, e.Payload, e.CreatedAt
		ent.FmtNil, ent.FmtLen = e.Formatted == nil, len(e.Formatted)
	}
	ent.Call = rt.Tick()
	n.log.add(ent)
	if n.OnProcess != nil {
		n.OnProcess(ctx, n, e, ent)
	}
	var (
		out *eventlogger.Event
		err error
	)
	switch n.Behaviour(ent.Prov) {
	case Pass:
		out = e
		if e != nil && (n.Typ == eventlogger.NodeTypeFormatter || n.Typ == eventlogger.NodeTypeFormatterFilter) {
			// formatter-typed recording nodes format in place, like the stock formatters
			e.FormattedAs("h-"+n.Obj, []byte(ent.Prov))
		}
	case Replace:
		out = &eventlogger.Event{Type: ent.EvType, CreatedAt: ent.Created, Formatted: map[string][]byte{}, Payload: &Tok{S: ent.Prov + ">" + n.Obj}}
	case Drop:
		n.scribble(e, ent)
	case Fail:
		n.scribble(e, ent)
		ne := &NodeErr{Obj: n.Obj, Prov: ent.Prov, Seq: ent.Call}
		switch rt.Mix(n.behSeed, 77) % 4 {
		case 0:
			ne.Inner = context.DeadlineExceeded
		case 1:
			ne.Inner = context.Canceled
		}
		err = ne
		switch rt.Mix(n.behSeed, 63) % 6 {
		case 0:
			// a node that reports several things at once: its error is still one error, the one it returned
			err = errors.Join(ne, fmt.Errorf("second destination failed too (%s)", n.Obj))
		case 1:
			err = &multiErr{parts: []error{ne, fmt.Errorf("and another (%s)", n.Obj)}}
		}
		if rt.Mix(n.behSeed, 91)%3 == 0 {
			// a failing node that hands back the event together with its error has failed all the same
			out = e
		}
	}
	n.log.done(ent, out, err)
	return out, err
}

// scribble: one node object in three writes to the event it is about to drop or to fail on (the stock
// JSONFormatterFilter stores its format before it applies the predicate); what a node did to the copy of its
// own pipeline is nobody else's business.
func (n *RecNode) scribble(e *eventlogger.Event, ent *Entry) {
	if e != nil && rt.Mix(n.behSeed, 55)%3 == 0 {
		e.FormattedAs("scribble-"+n.Obj, []byte(ent.Prov))
	}
}

// Two ways an application wraps a node it registers (NodeUnwrapper): a wrapper that leaves closing to the Broker
// (it finds the wrapped node's Close through Unwrap) and one that has a Close of its own which forwards. Either
// way the wrapped node is closed exactly when, and exactly as often as, an unwrapped one.
type wrapNoClose struct{ in *RecNode }

func (w *wrapNoClose) Process(ctx context.Context, e *eventlogger.Event) (*eventlogger.Event, error) {
	return w.in.Process(ctx, e)
}
func (w *wrapNoClose) Reopen() error              { return w.in.reopenFrom(true) }
func (w *wrapNoClose) Type() eventlogger.NodeType { return w.in.Type() }
func (w *wrapNoClose) Unwrap() eventlogger.Node   { return w.in }

type wrapClose struct{ wrapNoClose }

func (w *wrapClose) Close(ctx context.Context) error { return w.in.Close(ctx) }

// asRegistered is what the harness hands to RegisterNode for this node object (always the same value).
func (n *RecNode) asRegistered() eventlogger.Node {
	n.cmu.Lock()
	defer n.cmu.Unlock()
	if n.reg == nil {
		switch rt.Mix(n.behSeed, 33) % 8 {
		case 0:
			n.reg = &wrapNoClose{in: n}
		case 1:
			n.reg = &wrapClose{wrapNoClose{in: n}}
		default:
			n.reg = n
		}
	}
	return n.reg
}

// Reopen is what the library calls on the registered object. When the node was registered through a wrapper, a
// call that arrives here directly has bypassed the wrapper (whose Reopen is the registered node's Reopen): it is
// not counted as a reopen of the registered node, and cannot report its failure.
func (n *RecNode) Reopen() error { return n.reopenFrom(false) }

func (n *RecNode) reopenFrom(viaWrapper bool) error {
	n.cmu.Lock()
	_, wrapped := n.reg.(*wrapNoClose)
	if !wrapped {
		_, wrapped = n.reg.(*wrapClose)
	}
	n.cmu.Unlock()
	if wrapped && !viaWrapper {
		atomic.AddInt64(&n.bypassed, 1)
		return nil
	}
	atomic.AddInt64(&n.reopens, 1)
	if n.OnReopen != nil {
		n.OnReopen(n)
	}
	return n.ReopenErr
}

func (n *RecNode) Type() eventlogger.NodeType { return n.Typ }

func (n *RecNode) Close(ctx context.Context) error {
	atomic.AddInt64(&n.closes, 1)
	if n.OnClose != nil {
		n.OnClose(ctx, n)
	}
	return n.CloseErr
}

func (n *RecNode) Reopens() int { return int(atomic.LoadInt64(&n.reopens)) }
func (n *RecNode) Closes() int  { return int(atomic.LoadInt64(&n.closes)) }

// ---- reference model of the registry ------------------------------------------------

type mNode struct {
	obj  *RecNode
	deny bool
}

type mPipe struct {
	typ, pid string
	version  int
	ids      []string
	objs     []*RecNode // node objects captured at registration
	deny     bool
}

// Model is the clean specification of the Broker's registry, written from the
// property statements (C05, C06, C07) and the API documentation.
type Model struct {
	nodes   map[string]*mNode
	pipes   map[string]*mPipe // key type|pid
	version int
}

func NewModel() *Model { return &Model{nodes: map[string]*mNode{}, pipes: map[string]*mPipe{}} }

func pkey(t, p string) string { return t + "|" + p }

func (m *Model) InUse(id string) bool {
	for _, p := range m.pipes {
		for _, x := range p.ids {
			if x == id {
				return true
			}
		}
	}
	return false
}

func (m *Model) Registered(id string) bool { _, ok := m.nodes[id]; return ok }

// PipesOf returns the registered pipelines of a type, sorted by pid.
func (m *Model) PipesOf(t string) []*mPipe {
	var out []*mPipe
	for _, p := range m.pipes {
		if p.typ == t {
			out = append(out, p)
		}
	}
	sort.Slice(out, func(i, j int) bool { return out[i].pid < out[j].pid })
	return out
}

func validPolicy(p string) bool {
	return p == "" || p == "AllowOverwrite" || p == "DenyOverwrite" || p == "DenyThenAllow" || p == "AllowThenDeny"
}

// denies: the policy in force after the call (of several options in one call the last one counts)
func denies(p string) bool { return p == "DenyOverwrite" || p == "AllowThenDeny" }

// RegisterNode returns whether the call must succeed.
func (m *Model) RegisterNode(id string, obj *RecNode, policy string) bool {
	if id == "" || !validPolicy(policy) {
		return false
	}
	if n, ok := m.nodes[id]; ok && n.deny {
		return false
	}
	m.nodes[id] = &mNode{obj: obj, deny: denies(policy)}
	return true
}

// WellFormed is C05's acceptance predicate (without the policy clause).
func (m *Model) WellFormed(t, pid string, ids []string) bool {
	if pid == "" || t == "" || len(ids) == 0 {
		return false
	}
	for _, id := range ids {
		if id == "" {
			return false
		}
	}
	for _, id := range ids {
		if _, ok := m.nodes[id]; !ok {
			return false
		}
	}
	if len(ids) < 2 {
		return false
	}
	last := m.nodes[ids[len(ids)-1]].obj.Typ
	prev := m.nodes[ids[len(ids)-2]].obj.Typ
	if last != eventlogger.NodeTypeSink {
		return false
	}
	if prev != eventlogger.NodeTypeFormatter && prev != eventlogger.NodeTypeFormatterFilter {
		return false
	}
	return true
}

func (m *Model) RegisterPipeline(t, pid string, ids []string, policy string) bool {
	if !validPolicy(policy) || !m.WellFormed(t, pid, ids) {
		return false
	}
	if p, ok := m.pipes[pkey(t, pid)]; ok && p.deny {
		return false
	}
	m.version++
	p := &mPipe{typ: t, pid: pid, version: m.version, ids: append([]string(nil), ids...), deny: denies(policy)}
	for _, id := range ids {
		p.objs = append(p.objs, m.nodes[id].obj)
	}
	m.pipes[pkey(t, pid)] = p
	return true
}

// RemovePipeline: the pipeline is gone afterwards (the call's own error value is
// not specified by any property when the pipeline or type is unknown).
func (m *Model) RemovePipeline(t, pid string) { delete(m.pipes, pkey(t, pid)) }

// RemovePipelineAndNodes returns (removed, the node objects that must be closed
// exactly once and unregistered).
func (m *Model) RemovePipelineAndNodes(t, pid string) (bool, []*RecNode) {
	p, ok := m.pipes[pkey(t, pid)]
	if !ok || t == "" || pid == "" {
		return false, nil
	}
	delete(m.pipes, pkey(t, pid))
	var closed []*RecNode
	seen := map[string]bool{}
	for _, id := range p.ids {
		if seen[id] {
			continue
		}
		seen[id] = true
		if m.InUse(id) {
			continue
		}
		if n, ok := m.nodes[id]; ok {
			closed = append(closed, n.obj)
			delete(m.nodes, id)
		}
	}
	return true, closed
}

type rmNodeResult int

const (
	rmNotFound rmNodeResult = iota
	rmInUse
	rmRemoved
)

func (r rmNodeResult) String() string { return [...]string{"notfound", "inuse", "removed"}[r] }

func (m *Model) RemoveNode(id string) (rmNodeResult, *RecNode) {
	n, ok := m.nodes[id]
	if !ok {
		return rmNotFound, nil
	}
	if m.InUse(id) {
		return rmInUse, nil
	}
	delete(m.nodes, id)
	return rmRemoved, n.obj
}

// ---- expected traversals ----------------------------------------------------------------

// Step is one expected invocation of a traversal.
type Step struct {
	Obj  *RecNode
	Prov string
	Beh  Beh
}

// Traversal is what a pipeline version must do with a sent provenance.
type Traversal struct {
	Pipe     *mPipe
	Steps    []Step
	Complete string // node id reported complete ("" when the traversal ends in an error)
	IsSink   bool
	ErrStep  int // index of the failing step or -1
}

func Simulate(p *mPipe, send string) Traversal {
	tr := Traversal{Pipe: p, ErrStep: -1}
	prov := send
	for i, o := range p.objs {
		b := o.Behaviour(prov)
		tr.Steps = append(tr.Steps, Step{Obj: o, Prov: prov, Beh: b})
		last := i == len(p.objs)-1
		switch b {
		case Fail:
			tr.ErrStep = i
			return tr
		case Drop:
			tr.Complete, tr.IsSink = p.ids[i], o.Typ == eventlogger.NodeTypeSink
			return tr
		case Replace:
			prov = prov + ">" + o.Obj
		}
		if last {
			tr.Complete, tr.IsSink = p.ids[i], o.Typ == eventlogger.NodeTypeSink
		}
	}
	return tr
}

// ---- hook tracing ------------------------------------------------------------------------

type traceKey struct{}

// Trace records the protocol points one Send passed (hooks in graph.go, build
// tag verif) and can cancel the Send's context synchronously inside the k-th hit.
type Trace struct {
	mu               sync.Mutex
	points           []string
	cancelAt         int // 1-based hit index, 0 = never
	cancel           context.CancelFunc
	yield            *rt.Rand // nil = no yields
	yieldPct         int
	cancelledAtPoint string
}

func (t *Trace) hit(point string, id eventlogger.NodeID) {
	t.mu.Lock()
	t.points = append(t.points, point)
	n := len(t.points)
	doCancel := t.cancelAt == n && t.cancel != nil
	if doCancel {
		t.cancelledAtPoint = point
	}
	y := 0
	if t.yield != nil && t.yield.Intn(100) < t.yieldPct {
		y = 1 + t.yield.Intn(3)
	}
	t.mu.Unlock()
	if doCancel {
		t.cancel()
	}
	switch y {
	case 1, 2:
		runtime.Gosched()
	case 3:
		time.Sleep(time.Duration(20) * time.Microsecond)
	}
}

func (t *Trace) Points() []string {
	t.mu.Lock()
	defer t.mu.Unlock()
	return append([]string(nil), t.points...)
}

func (t *Trace) Len() int {
	t.mu.Lock()
	defer t.mu.Unlock()
	return len(t.points)
}

func (t *Trace) Count(point string) int {
	t.mu.Lock()
	defer t.mu.Unlock()
	n := 0
	for _, p := range t.points {
		if p == point {
			n++
		}
	}
	return n
}

// Sig is an order-sensitive signature of the trace (distinct interleavings seen).
func (t *Trace) Sig() string { return strings.Join(t.Points(), ",") }

var hookOnce sync.Once

func installHook() {
	hookOnce.Do(func() {
		eventlogger.VerifSetHook(func(ctx context.Context, point string, id eventlogger.NodeID) {
			if ctx == nil {
				return
			}
			if t, ok := ctx.Value(traceKey{}).(*Trace); ok && t != nil {
				t.hit(point, id)
			}
		})
	})
}

func withTrace(ctx context.Context, t *Trace) context.Context {
	installHook()
	return context.WithValue(ctx, traceKey{}, t)
}

// ---- world: real broker + model driven in lock-step -----------------------------------------

type World struct {
	B   *eventlogger.Broker
	M   *Model
	Log *Log
	rng *rt.Rand
}

func NewWorld(rng *rt.Rand) *World {
	b, err := eventlogger.NewBroker()
	if err != nil {
		panic(err)
	}
	return &World{B: b, M: NewModel(), Log: &Log{}, rng: rng}
}

func policyOpts(node bool, policy string) []eventlogger.Option {
	if policy == "" {
		return nil
	}
	with := eventlogger.WithPipelineRegistrationPolicy
	if node {
		with = eventlogger.WithNodeRegistrationPolicy
	}
	switch policy {
	case "ExplicitEmpty":
		// the empty string given explicitly is not one of the two policies
		return []eventlogger.Option{with("")}
	case "DenyThenAllow":
		// several policy options in one call: the last one counts
		return []eventlogger.Option{with(eventlogger.DenyOverwrite), with(eventlogger.AllowOverwrite)}
	case "AllowThenDeny":
		return []eventlogger.Option{with(eventlogger.AllowOverwrite), with(eventlogger.DenyOverwrite)}
	case "LowerDeny":
		// a spelling that is not one of the two values is not one of the two values
		return []eventlogger.Option{with("denyoverwrite")}
	case "SpaceDeny":
		return []eventlogger.Option{with(" DenyOverwrite")}
	case "BogusThenDeny":
		// an invalid value is invalid whatever follows it in the same call
		return []eventlogger.Option{with("bogus"), with(eventlogger.DenyOverwrite)}
	}
	if node {
		return []eventlogger.Option{eventlogger.WithNodeRegistrationPolicy(eventlogger.RegistrationPolicy(policy))}
	}
	return []eventlogger.Option{eventlogger.WithPipelineRegistrationPolicy(eventlogger.RegistrationPolicy(policy))}
}

func toNodeIDs(ids []string) []eventlogger.NodeID {
	out := make([]eventlogger.NodeID, len(ids))
	for i, s := range ids {
		out[i] = eventlogger.NodeID(s)
	}
	return out
}

func isCtxErr(err error) bool {
	return errors.Is(err, context.Canceled) || errors.Is(err, context.DeadlineExceeded)
}

func multisetEq(a, b []string) bool {
	if len(a) != len(b) {
		return false
	}
	x, y := append([]string(nil), a...), append([]string(nil), b...)
	sort.Strings(x)
	sort.Strings(y)
	for i := range x {
		if x[i] != y[i] {
			return false
		}
	}
	return true
}

// multisetSub reports a ⊆ b as multisets.
func multisetSub(a, b []string) bool {
	cnt := map[string]int{}
	for _, s := range b {
		cnt[s]++
	}
	for _, s := range a {
		cnt[s]--
		if cnt[s] < 0 {
			return false
		}
	}
	return true
}

func idsToStrings(ids []eventlogger.NodeID) []string {
	out := make([]string, len(ids))
	for i, s := range ids {
		out[i] = string(s)
	}
	return out
}
