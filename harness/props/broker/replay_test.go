package broker

import (
	"context"
	"errors"
	"fmt"
	"sort"
	"strings"
	"time"

	"github.com/hashicorp/eventlogger"

	"verifharness/internal/rt"
)

// Replay applies ops to a fresh world (fresh node objects) and returns it with
// the outcomes and, per node object, the index of the op that created it.
type Replay struct {
	W      *World
	Outs   []Outcome
	Origin map[*RecNode]int
	Objs   []*RecNode // every object offered for registration, in op order
}

func replayOps(ops []Op, style NodeStyle, seed uint64) *Replay {
	rp := &Replay{W: NewWorld(rt.NewRand(seed)), Origin: map[*RecNode]int{}}
	for i, op := range ops {
		out := rp.W.Apply(op, style)
		rp.Outs = append(rp.Outs, out)
		if out.Node != nil {
			rp.Origin[out.Node] = i
			rp.Objs = append(rp.Objs, out.Node)
		}
	}
	return rp
}

// normProv rewrites object names in a provenance into op origins, so that
// observations of two replays of the same history are comparable.
func (rp *Replay) normProv(prov string) string {
	parts := strings.Split(prov, ">")
	for i := 1; i < len(parts); i++ {
		for o, idx := range rp.Origin {
			if o.Obj == parts[i] {
				parts[i] = fmt.Sprintf("@%d", idx)
			}
		}
	}
	parts[0] = "S"
	return strings.Join(parts, ">")
}

// Observe returns the externally observable state: per type IsAnyPipelineRegistered
// and what one Send delivers to (node objects by origin), then per node id the
// class of a destructive RemoveNode probe. The world must not be used afterwards.
func (rp *Replay) Observe(types, ids []string) []string {
	var obs []string
	w := rp.W
	for _, t := range types {
		any := w.B.IsAnyPipelineRegistered(eventlogger.EventType(t))
		o := w.DoSend(t, 0, nil, 0)
		o.Quiesce(w, 5*time.Second)
		var inv []string
		for _, e := range o.Entries {
			inv = append(inv, fmt.Sprintf("@%d[%s]", rp.Origin[e.Node], rp.normProv(e.Prov)))
		}
		sort.Strings(inv)
		c := idsToStrings(o.Status.Complete())
		sort.Strings(c)
		obs = append(obs, fmt.Sprintf("type %s any=%v delivered=%v complete=%v warnings=%d", t, any, inv, c, len(o.Status.Warnings)))
	}
	for _, id := range ids {
		obs = append(obs, "node "+id+" "+rp.probeRemove(id))
	}
	return obs
}

// ObserveDeep is Observe followed by a teardown: every (type, pipeline id) of the alphabet is removed in turn and
// all node ids are probed again after each removal. Hidden differences in the reference counts (a node that
// stays pinned, or is released one removal too early) become observable that way.
func (rp *Replay) ObserveDeep(types, pids, ids []string) []string {
	obs := rp.Observe(types, ids)
	for _, t := range types {
		for _, pid := range pids {
			// (the call's own result is left out: it depends on whether the type has a graph at all, which a
			// failing RegisterPipeline for a new type does create and which is none of the observables the
			// statement lists)
			_ = rp.W.B.RemovePipeline(eventlogger.EventType(t), eventlogger.PipelineID(pid))
			line := fmt.Sprintf("teardown RemovePipeline(%s/%s):", t, pid)
			for _, id := range ids {
				line += " " + id + "=" + rp.probeRemove(id)
			}
			obs = append(obs, line)
		}
	}
	return obs
}

// probeRemove calls the real RemoveNode and classifies the result.
func (rp *Replay) probeRemove(id string) string {
	before := map[*RecNode]int{}
	for _, o := range rp.Objs {
		before[o] = o.Closes()
	}
	err := rp.W.B.RemoveNode(context.Background(), eventlogger.NodeID(id))
	var closed []string
	for _, o := range rp.Objs {
		if d := o.Closes() - before[o]; d != 0 {
			closed = append(closed, fmt.Sprintf("@%d x%d", rp.Origin[o], d))
		}
	}
	sort.Strings(closed)
	cls := "removed"
	switch {
	case err == nil:
	case errors.Is(err, eventlogger.ErrNodeNotFound):
		cls = "notfound"
	case strings.Contains(err.Error(), "unable to close"):
		cls = "removed(close-error)"
	default:
		cls = "refused"
	}
	return fmt.Sprintf("%s closed=%v", cls, closed)
}

// expectProbe is what the model demands of a RemoveNode probe of id.
func (rp *Replay) expectProbe(id string) string {
	m := rp.W.M
	n, ok := m.nodes[id]
	switch {
	case !ok:
		return "notfound closed=[]"
	case m.InUse(id):
		return "refused closed=[]"
	default:
		cls := "removed"
		if n.obj.CloseErr != nil {
			cls = "removed(close-error)"
		}
		return fmt.Sprintf("%s closed=[@%d x1]", cls, rp.Origin[n.obj])
	}
}

// closeDelta returns the objects whose Close count changed since the snapshot.
func closeSnapshot(objs []*RecNode) map[*RecNode]int {
	m := map[*RecNode]int{}
	for _, o := range objs {
		m[o] = o.Closes()
	}
	return m
}
