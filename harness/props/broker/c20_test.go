package broker

import (
	"context"
	"errors"
	"fmt"
	"github.com/hashicorp/eventlogger"
	"runtime"
	"strings"
	"sync"
	"sync/atomic"
	"testing"

	"verifharness/internal/rt"
)

func TestC20(t *testing.T) {
	run := rt.Start(t, "C20")
	defer run.Finish()
	r := run.Rand()
	a := Alphabet{
		Types: []string{"t0", "t1", "t2"}, Pids: []string{"p0", "p1", "p2"},
		Filters: []string{"f0", "f1", "f2"}, Fmts: []string{"m0", "m1"}, Sinks: []string{"k0", "k1"},
		Policies: []string{"", "", "AllowOverwrite"}, Malformed: 8, DupIDs: 12,
	}
	c20RemovalDuringReopen(run, r.Fork())
	nh := run.N(8000, 400000)
	for i := 0; i < nh && !run.Stop(); i++ {
		cr := r.Fork()
		w := NewWorld(cr.Fork())
		// an event type may be known to the Broker before its first pipeline: the threshold setters create it
		var pre []string
		if cr.Intn(3) == 0 {
			for _, ty := range a.Types {
				switch cr.Intn(4) {
				case 0:
					w.B.SetSuccessThreshold(eventlogger.EventType(ty), 0)
					pre = append(pre, "SetSuccessThreshold("+ty+",0)")
				case 1:
					w.B.SetSuccessThresholdSinks(eventlogger.EventType(ty), 0)
					pre = append(pre, "SetSuccessThresholdSinks("+ty+",0)")
				}
			}
			run.Add("histories_with_thresholds_set_first", 1)
		}
		ops, mis := buildConfig(w, a, plainStyle, cr, cr.Range(1, 8))
		run.Progress("C20 %v %v", pre, opsString(ops))
		if mis != "" {
			run.Inconclusive("registry diverged from the model (C05/C06/C07's subject): " + mis)
			continue
		}
		// objects captured by registered pipelines (what Reopen must reach) and all other objects
		captured := map[*RecNode]bool{}
		var order []*RecNode
		for _, ty := range a.Types {
			for _, p := range w.M.PipesOf(ty) {
				for _, o := range p.objs {
					if !captured[o] {
						captured[o] = true
						order = append(order, o)
					}
				}
			}
		}
		var others []*RecNode
		seen := map[*RecNode]bool{}
		for _, e := range w.Log.Snapshot() {
			_ = e
		}
		// every object ever created is reachable through the model's history: collect from outcomes is
		// not available here, so track through the model's node table and pipelines only.
		for _, n := range w.M.nodes {
			if !captured[n.obj] && !seen[n.obj] {
				seen[n.obj] = true
				others = append(others, n.obj)
			}
		}
		wit := func(extra any) any {
			return map[string]any{"before_the_history": pre, "history": opsString(ops), "detail": extra}
		}
		// no node fails
		before := map[*RecNode]int{}
		for _, o := range order {
			before[o] = o.Reopens()
		}
		if err := w.B.Reopen(context.Background()); err != nil {
			run.Violation("history-pattern:reopen-error", "Broker.Reopen returned an error although no node failed: "+err.Error(), wit(nil))
		}
		for _, o := range order {
			if o.Reopens()-before[o] < 1 {
				run.Violation("history-pattern:reopen-missed", fmt.Sprintf("Broker.Reopen did not reach node object %s (id %s) of a registered pipeline", o.Obj, o.ID), wit(nil))
				break
			}
		}
		// a context that is already done, or is cancelled by the first node reached: Reopen takes no part in
		// Send's cancellation contract, so a nil result still claims that every node was reached. (A non-nil
		// result under a done context is not judged.)
		for _, mode := range []string{"pre-cancelled", "cancelled-by-first-node"} {
			if len(order) == 0 {
				break
			}
			cctx, cancel := context.WithCancel(context.Background())
			for _, o := range order {
				before[o] = o.Reopens()
			}
			if mode == "pre-cancelled" {
				cancel()
			} else {
				for _, o := range order {
					o.OnReopen = func(n *RecNode) { cancel() }
				}
			}
			err := w.B.Reopen(cctx)
			cancel()
			for _, o := range order {
				o.OnReopen = nil
			}
			if err != nil {
				run.Add("reopen_done_ctx_errors_not_judged", 1)
				continue
			}
			for _, o := range order {
				if o.Reopens()-before[o] < 1 {
					run.Violation("history-pattern:reopen-missed-done-ctx", fmt.Sprintf("Broker.Reopen (%s context) returned nil but did not reach node object %s (id %s) of a registered pipeline", mode, o.Obj, o.ID), wit(nil))
					break
				}
			}
			run.Add("reopen_done_ctx_checked", 1)
		}
		// each single captured object failing
		for _, o := range order {
			ferr := &NodeErr{Obj: o.Obj, Prov: "reopen-" + rt.Token("e")}
			o.ReopenErr = ferr
			err := w.B.Reopen(context.Background())
			o.ReopenErr = nil
			if err == nil {
				run.Violation("history-pattern:reopen-error-lost", fmt.Sprintf("node object %s (id %s) failed in Reopen but Broker.Reopen returned nil", o.Obj, o.ID), wit(nil))
				break
			}
			if !errors.Is(err, error(ferr)) && !strings.Contains(err.Error(), ferr.Prov) {
				run.Violation("history-pattern:reopen-error-not-carried", "Broker.Reopen's error does not carry the failing node's error: "+err.Error(), wit(nil))
				break
			}
			run.Add("fault_positions", 1)
		}
		// two captured objects failing in the same call (of different event types where the state has them): the
		// call returns, and it returns an error that carries at least one of the two failures
		if len(order) >= 2 {
			o1, o2 := order[0], order[len(order)-1]
			f1, f2 := &NodeErr{Obj: o1.Obj, Prov: "reopen-" + rt.Token("e")}, &NodeErr{Obj: o2.Obj, Prov: "reopen-" + rt.Token("e")}
			o1.ReopenErr, o2.ReopenErr = f1, f2
			err := w.B.Reopen(context.Background())
			o1.ReopenErr, o2.ReopenErr = nil, nil
			switch {
			case err == nil:
				run.Violation("history-pattern:reopen-error-lost", fmt.Sprintf("node objects %s and %s both failed in Reopen but Broker.Reopen returned nil", o1.Obj, o2.Obj), wit(nil))
			case !strings.Contains(err.Error(), f1.Prov) && !strings.Contains(err.Error(), f2.Prov) && !errors.Is(err, error(f1)) && !errors.Is(err, error(f2)):
				run.Violation("history-pattern:reopen-error-not-carried", "Broker.Reopen's error carries neither of the two failing nodes' errors: "+err.Error(), wit(nil))
			}
			run.Add("double_fault_positions", 1)
		}
		// objects no registered pipeline captured may fail without consequence
		for _, o := range others {
			o.ReopenErr = &NodeErr{Obj: o.Obj, Prov: "reopen-unreferenced"}
		}
		if len(others) > 0 {
			if err := w.B.Reopen(context.Background()); err != nil {
				run.Violation("history-pattern:reopen-unreferenced", "Broker.Reopen failed because of a node that no registered pipeline uses: "+err.Error(), wit(nil))
			}
		}
		sig := ""
		if len(order) >= 2 {
			sig = fmt.Sprintf("%d|%d|%v", len(order), len(w.M.pipes), opsString(ops))
		}
		run.Eval(sig)
		if run.NeedSample() && len(order) >= 3 {
			var ids []string
			for _, o := range order {
				ids = append(ids, string(o.ID)+"="+o.Obj)
			}
			run.Sample(map[string]any{"history": opsString(ops), "objects_reopen_must_reach": ids})
		}
	}
	c20Concurrent(run)
	c20Overlap(run)
}

// c20Concurrent: Reopen calls overlap registrations and removals (Reopen walks the pipelines without the Broker's
// lock). Whatever they saw meanwhile, once everything has returned a Reopen must reach every node of every
// pipeline that is registered now, and - with the nodes of the pipelines that are not registered made to fail -
// return nil.
func c20Concurrent(run *rt.Run) {
	r := run.Rand()
	n := run.N(200, 8000)
	ctx := context.Background()
	for i := 0; i < n && !run.Stop(); i++ {
		cr := r.Fork()
		b, _ := eventlogger.NewBroker()
		log := &Log{}
		type pipe struct {
			typ, pid string
			nodes    []*RecNode
			ids      []eventlogger.NodeID
		}
		var pipes []*pipe
		np := cr.Range(2, 5)
		for k := 0; k < np; k++ {
			p := &pipe{typ: fmt.Sprintf("t%d", k%2), pid: fmt.Sprintf("p%d", k)}
			for j, ty := range []eventlogger.NodeType{eventlogger.NodeTypeFilter, eventlogger.NodeTypeFormatter, eventlogger.NodeTypeSink} {
				id := fmt.Sprintf("n%d-%d", k, j)
				nd := NewRecNode(log, id, ty, 1, fixedBeh(Pass))
				nd.OnReopen = func(*RecNode) { runtime.Gosched() }
				b.RegisterNode(eventlogger.NodeID(id), nd)
				p.nodes = append(p.nodes, nd)
				p.ids = append(p.ids, eventlogger.NodeID(id))
			}
			pipes = append(pipes, p)
		}
		registered := make([]bool, np)
		var wg sync.WaitGroup
		var stop int32
		wg.Add(1)
		go func() {
			defer wg.Done()
			for atomic.LoadInt32(&stop) == 0 {
				b.Reopen(ctx)
			}
		}()
		steps := cr.Range(4, 40)
		for s := 0; s < steps; s++ {
			k := cr.Intn(np)
			p := pipes[k]
			if registered[k] && cr.Bool() {
				b.RemovePipeline(eventlogger.EventType(p.typ), eventlogger.PipelineID(p.pid))
				registered[k] = false
			} else {
				if err := b.RegisterPipeline(eventlogger.Pipeline{PipelineID: eventlogger.PipelineID(p.pid), EventType: eventlogger.EventType(p.typ), NodeIDs: p.ids}); err == nil {
					registered[k] = true
				}
			}
			if cr.Intn(3) == 0 {
				runtime.Gosched()
			}
		}
		atomic.StoreInt32(&stop, 1)
		wg.Wait()
		before := map[*RecNode]int{}
		var state []string
		for k, p := range pipes {
			state = append(state, fmt.Sprintf("%s/%s registered=%v", p.typ, p.pid, registered[k]))
			for _, nd := range p.nodes {
				before[nd] = nd.Reopens()
				nd.OnReopen = nil
				if !registered[k] {
					nd.ReopenErr = &NodeErr{Obj: nd.Obj, Prov: "reopen-of-unregistered"}
				}
			}
		}
		err := b.Reopen(ctx)
		wit := map[string]any{"pipelines_after_the_concurrent_phase": state, "registry_calls": steps}
		if err != nil {
			run.Violation("history-pattern:reopen-error", "after registrations and removals that overlapped Reopen calls have all returned, Broker.Reopen fails because of a node of a pipeline that is not registered: "+err.Error(), wit)
		}
		for k, p := range pipes {
			if !registered[k] {
				continue
			}
			for _, nd := range p.nodes {
				if nd.Reopens()-before[nd] < 1 {
					run.Violation("history-pattern:reopen-missed", fmt.Sprintf("after registrations and removals that overlapped Reopen calls have all returned, Broker.Reopen does not reach node %s of the registered pipeline %s/%s", nd.ID, p.typ, p.pid), wit)
					break
				}
			}
		}
		run.Eval(fmt.Sprintf("conc|%d|%d", np, steps/8))
	}
}

// c20Overlap: several Broker.Reopen calls run at the same time on a registry that does not change (3..8 event
// types, one pipeline each). "Reopen reaches every node of every registered pipeline" holds for each call by
// itself: a node's Reopen is attributed to the call on whose goroutine it runs (Broker.Reopen walks the pipelines
// in its caller's goroutine), and every call that returned nil must have reached every node. A Reopen observed on
// a goroutine that is none of the callers would make the attribution meaningless: the case is then inconclusive.
func c20Overlap(run *rt.Run) {
	r := run.Rand()
	n := run.N(150, 6000)
	ctx := context.Background()
	for i := 0; i < n && !run.Stop(); i++ {
		cr := r.Fork()
		b, _ := eventlogger.NewBroker()
		log := &Log{}
		ntypes := cr.Range(3, 8)
		var nodes []*RecNode
		var reached sync.Map // gid -> *sync.Map (node object -> count within the current call)
		var foreign int32
		for k := 0; k < ntypes; k++ {
			var ids []eventlogger.NodeID
			for j, ty := range []eventlogger.NodeType{eventlogger.NodeTypeFormatter, eventlogger.NodeTypeSink} {
				id := fmt.Sprintf("n%d-%d", k, j)
				nd := NewRecNode(log, id, ty, 1, fixedBeh(Pass))
				nd.OnReopen = func(x *RecNode) {
					if m, ok := reached.Load(rt.GID()); ok {
						m.(*sync.Map).Store(x.Obj, true)
					} else {
						atomic.AddInt32(&foreign, 1)
					}
					runtime.Gosched()
				}
				b.RegisterNode(eventlogger.NodeID(id), nd)
				nodes = append(nodes, nd)
				ids = append(ids, eventlogger.NodeID(id))
			}
			if err := b.RegisterPipeline(eventlogger.Pipeline{PipelineID: eventlogger.PipelineID(fmt.Sprintf("p%d", k)), EventType: eventlogger.EventType(fmt.Sprintf("t%d", k)), NodeIDs: ids}); err != nil {
				panic(err)
			}
		}
		ncallers, ncalls := cr.Range(2, 5), cr.Range(2, 6)
		run.Progress("C20 overlapping Reopen %d types=%d callers=%d calls=%d", i, ntypes, ncallers, ncalls)
		type miss struct {
			caller, call int
			missed       []string
			err          error
		}
		var mu sync.Mutex
		var misses []miss
		var arrived int32
		var wg sync.WaitGroup
		for c := 0; c < ncallers; c++ {
			wg.Add(1)
			go func(c int) {
				defer wg.Done()
				g := rt.GID()
				atomic.AddInt32(&arrived, 1)
				for atomic.LoadInt32(&arrived) < int32(ncallers) {
					runtime.Gosched()
				}
				for k := 0; k < ncalls; k++ {
					mine := &sync.Map{}
					reached.Store(g, mine)
					err := b.Reopen(ctx)
					var missed []string
					for _, nd := range nodes {
						if _, ok := mine.Load(nd.Obj); !ok {
							missed = append(missed, string(nd.ID))
						}
					}
					if err != nil || len(missed) > 0 {
						mu.Lock()
						misses = append(misses, miss{c, k, missed, err})
						mu.Unlock()
					}
				}
			}(c)
		}
		wg.Wait()
		wit := map[string]any{"event_types": ntypes, "nodes": len(nodes), "concurrent_callers": ncallers, "calls_per_caller": ncalls}
		switch {
		case atomic.LoadInt32(&foreign) > 0:
			run.Inconclusive("a node's Reopen ran on a goroutine that is none of the callers of Broker.Reopen: calls cannot be told apart")
		case len(misses) > 0:
			m := misses[0]
			if m.err != nil {
				run.Violation("history-pattern:reopen-error", fmt.Sprintf("one of %d overlapping Broker.Reopen calls returned an error although no node failed: %v", ncallers, m.err), wit)
			} else {
				run.Violation("history-pattern:reopen-missed-overlapping", fmt.Sprintf("call %d of caller %d, one of %d Broker.Reopen calls running at the same time, returned nil but did not reach %d of %d nodes (%v); %d calls in all missed nodes", m.call, m.caller, ncallers, len(m.missed), len(nodes), m.missed, len(misses)), wit)
			}
		}
		run.Add("overlapping_reopen_calls", ncallers*ncalls)
		run.Eval(fmt.Sprintf("overlap|%d|%d|%d", ntypes, ncallers, ncalls))
	}
}
