package broker

import (
	"context"
	"errors"
	"fmt"
	"strings"
	"testing"

	"verifharness/internal/rt"
)

func TestC20(t *testing.T) {
	run := rt.Start(t, "C20")
	defer run.Finish()
	r := run.Rand()
	a := Alphabet{
		Types: []string{"t0", "t1", "t2"}, Pids: []string{"p0", "p1", "p2"},
		Filters: []string{"f0", "f1", "f2"}, Fmts: []string{"m0", "m1"}, Sinks: []string{"k0", "k1"},
		Policies: []string{"", "", "AllowOverwrite"}, Malformed: 8, DupIDs: 12,
	}
	nh := run.N(8000, 400000)
	for i := 0; i < nh && !run.Stop(); i++ {
		cr := r.Fork()
		w := NewWorld(cr.Fork())
		ops, mis := buildConfig(w, a, plainStyle, cr, cr.Range(1, 8))
		run.Progress("C20 %v", opsString(ops))
		if mis != "" {
			run.Inconclusive("registry diverged from the model (C05/C06/C07's subject): " + mis)
			continue
		}
		// objects captured by registered pipelines (what Reopen must reach) and all other objects
		captured := map[*RecNode]bool{}
		var order []*RecNode
		for _, ty := range a.Types {
			for _, p := range w.M.PipesOf(ty) {
				for _, o := range p.objs {
					if !captured[o] {
						captured[o] = true
						order = append(order, o)
					}
				}
			}
		}
		var others []*RecNode
		seen := map[*RecNode]bool{}
		for _, e := range w.Log.Snapshot() {
			_ = e
		}
		// every object ever created is reachable through the model's history: collect from outcomes is
		// not available here, so track through the model's node table and pipelines only.
		for _, n := range w.M.nodes {
			if !captured[n.obj] && !seen[n.obj] {
				seen[n.obj] = true
				others = append(others, n.obj)
			}
		}
		wit := func(extra any) any {
			return map[string]any{"history": opsString(ops), "detail": extra}
		}
		// no node fails
		before := map[*RecNode]int{}
		for _, o := range order {
			before[o] = o.Reopens()
		}
		if err := w.B.Reopen(context.Background()); err != nil {
			run.Violation("history-pattern:reopen-error", "Broker.Reopen returned an error although no node failed: "+err.Error(), wit(nil))
		}
		for _, o := range order {
			if o.Reopens()-before[o] < 1 {
				run.Violation("history-pattern:reopen-missed", fmt.Sprintf("Broker.Reopen did not reach node object %s (id %s) of a registered pipeline", o.Obj, o.ID), wit(nil))
				break
			}
		}
		// a context that is already done, or is cancelled by the first node reached: Reopen takes no part in
		// Send's cancellation contract, so a nil result still claims that every node was reached. (A non-nil
		// result under a done context is not judged.)
		for _, mode := range []string{"pre-cancelled", "cancelled-by-first-node"} {
			if len(order) == 0 {
				break
			}
			cctx, cancel := context.WithCancel(context.Background())
			for _, o := range order {
				before[o] = o.Reopens()
			}
			if mode == "pre-cancelled" {
				cancel()
			} else {
				for _, o := range order {
					o.OnReopen = func(n *RecNode) { cancel() }
				}
			}
			err := w.B.Reopen(cctx)
			cancel()
			for _, o := range order {
				o.OnReopen = nil
			}
			if err != nil {
				run.Add("reopen_done_ctx_errors_not_judged", 1)
				continue
			}
			for _, o := range order {
				if o.Reopens()-before[o] < 1 {
					run.Violation("history-pattern:reopen-missed-done-ctx", fmt.Sprintf("Broker.Reopen (%s context) returned nil but did not reach node object %s (id %s) of a registered pipeline", mode, o.Obj, o.ID), wit(nil))
					break
				}
			}
			run.Add("reopen_done_ctx_checked", 1)
		}
		// each single captured object failing
		for _, o := range order {
			ferr := &NodeErr{Obj: o.Obj, Prov: "reopen-" + rt.Token("e")}
			o.ReopenErr = ferr
			err := w.B.Reopen(context.Background())
			o.ReopenErr = nil
			if err == nil {
				run.Violation("history-pattern:reopen-error-lost", fmt.Sprintf("node object %s (id %s) failed in Reopen but Broker.Reopen returned nil", o.Obj, o.ID), wit(nil))
				break
			}
			if !errors.Is(err, error(ferr)) && !strings.Contains(err.Error(), ferr.Prov) {
				run.Violation("history-pattern:reopen-error-not-carried", "Broker.Reopen's error does not carry the failing node's error: "+err.Error(), wit(nil))
				break
			}
			run.Add("fault_positions", 1)
		}
		// objects no registered pipeline captured may fail without consequence
		for _, o := range others {
			o.ReopenErr = &NodeErr{Obj: o.Obj, Prov: "reopen-unreferenced"}
		}
		if len(others) > 0 {
			if err := w.B.Reopen(context.Background()); err != nil {
				run.Violation("history-pattern:reopen-unreferenced", "Broker.Reopen failed because of a node that no registered pipeline uses: "+err.Error(), wit(nil))
			}
		}
		sig := ""
		if len(order) >= 2 {
			sig = fmt.Sprintf("%d|%d|%v", len(order), len(w.M.pipes), opsString(ops))
		}
		run.Eval(sig)
		if run.NeedSample() && len(order) >= 3 {
			var ids []string
			for _, o := range order {
				ids = append(ids, string(o.ID)+"="+o.Obj)
			}
			run.Sample(map[string]any{"history": opsString(ops), "objects_reopen_must_reach": ids})
		}
	}
}
