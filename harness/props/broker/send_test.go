package broker

import (
	"context"
	"errors"
	"fmt"
	"runtime"
	"sort"
	"sync"
	"time"

	"github.com/hashicorp/eventlogger"

	"verifharness/internal/rt"
)

// SendObs is everything observed about one Send at the API boundary.
type SendObs struct {
	SendID    string
	Type      string
	Payload   *Tok
	Call, Ret int64
	T0, T1    time.Time
	Status    eventlogger.Status
	Err       error
	Trace     *Trace
	CancelAt  int  // 0 never, -1 before the call, k>0 inside the k-th hook hit
	Cancelled bool // the context was cancelled at some point before Send returned
	CancelPt  string
	Entries   []*Entry // after quiescence
	Expected  []Traversal
	Survivors []rt.Goroutine
	Returned  bool
	Dump      string
	gBefore   int
}

var sendCtr int64

// DoSend sends one event of type t through w.B with a traced context.
// cancelAt: 0 never, -1 before the call, k>0 synchronously inside the k-th hook hit.
func (w *World) DoSend(t string, cancelAt int, yield *rt.Rand, yieldPct int) *SendObs {
	sendCtr++
	o := &SendObs{SendID: fmt.Sprintf("s%d", sendCtr), Type: t, CancelAt: cancelAt}
	o.Payload = &Tok{S: o.SendID}
	for _, p := range w.M.PipesOf(t) {
		o.Expected = append(o.Expected, Simulate(p, o.SendID))
	}
	ctx, cancel := context.WithCancel(context.Background())
	if sendCtr%3 == 0 {
		// a context that is cancelled with a cause: its error is still context.Canceled, and that is what Send's
		// error has to wrap
		cctx, ccancel := context.WithCancelCause(context.Background())
		ctx, cancel = cctx, func() { ccancel(errCancelCause) }
	}
	defer cancel()
	tr := &Trace{cancel: cancel, yield: yield, yieldPct: yieldPct}
	if cancelAt > 0 {
		tr.cancelAt = cancelAt
	}
	o.Trace = tr
	ctx = withTrace(ctx, tr)
	if cancelAt == -1 {
		cancel()
	}
	o.gBefore = runtime.NumGoroutine()
	o.T0 = time.Now()
	o.Call = rt.Tick()
	o.Status, o.Err = w.B.Send(ctx, eventlogger.EventType(t), o.Payload)
	o.Ret = rt.Tick()
	o.T1 = time.Now()
	o.Returned = true
	tr.mu.Lock()
	o.CancelPt = tr.cancelledAtPoint
	tr.mu.Unlock()
	o.Cancelled = cancelAt == -1 || o.CancelPt != ""
	return o
}

var sendCtrMu sync.Mutex

var errCancelCause = errors.New("the caller's reason for cancelling")

// DoSendConcurrent is DoSend for use from several goroutines at once (never cancelled).
func (w *World) DoSendConcurrent(t string, yield *rt.Rand, yieldPct int) *SendObs {
	sendCtrMu.Lock()
	sendCtr++
	o := &SendObs{SendID: fmt.Sprintf("s%d", sendCtr), Type: t}
	sendCtrMu.Unlock()
	o.Payload = &Tok{S: o.SendID}
	for _, p := range w.M.PipesOf(t) {
		o.Expected = append(o.Expected, Simulate(p, o.SendID))
	}
	tr := &Trace{yield: yield, yieldPct: yieldPct}
	o.Trace = tr
	ctx := withTrace(context.Background(), tr)
	o.T0 = time.Now()
	o.Call = rt.Tick()
	o.Status, o.Err = w.B.Send(ctx, eventlogger.EventType(t), o.Payload)
	o.Ret = rt.Tick()
	o.T1 = time.Now()
	o.Returned = true
	return o
}

// Quiesce waits until every goroutine Send started is gone; survivors are kept.
// Fast path: the process-wide goroutine count is back at its value before the
// Send and no recording node is running (valid for the single-threaded drivers
// that use DoSend); otherwise the goroutine dump decides.
func (o *SendObs) Quiesce(w *World, d time.Duration) {
	for i := 0; i < 2000; i++ {
		if runtime.NumGoroutine() <= o.gBefore && w.Log.Running() == 0 {
			o.Survivors = nil
			o.Entries = w.Log.ForSend(o.SendID)
			return
		}
		if i < 100 {
			runtime.Gosched()
		} else {
			time.Sleep(20 * time.Microsecond)
		}
	}
	o.Survivors = rt.WaitNoGoroutine(d, "eventlogger.(*graph).process", "eventlogger.(*graph).doProcess")
	o.Entries = w.Log.ForSend(o.SendID)
}

// ---- C01 oracle: decomposition of the observed invocations into traversals -----------------

// decompose tries to assign to every expected traversal a chain of observed
// entries: entry i+1 received exactly the event entry i returned, and was
// invoked after entry i returned. With full=true every traversal must be
// realised completely and every entry used; otherwise each traversal may be
// realised as a prefix (possibly empty) but every entry must still be used.
func decompose(exp []Traversal, entries []*Entry, full bool) (bool, string) {
	sort.Slice(entries, func(i, j int) bool { return entries[i].Call < entries[j].Call })
	for _, e := range entries {
		e.used = false
	}
	var rec func(ti, si int, prev *Entry, usedCnt int) bool
	rec = func(ti, si int, prev *Entry, usedCnt int) bool {
		if ti == len(exp) {
			return usedCnt == len(entries)
		}
		tr := exp[ti]
		if si == len(tr.Steps) {
			return rec(ti+1, 0, nil, usedCnt)
		}
		st := tr.Steps[si]
		for _, e := range entries {
			if e.used || e.Node != st.Obj || e.Prov != st.Prov {
				continue
			}
			if prev != nil && (e.Ev != prev.RetEv || e.Call < prev.Ret || prev.Ret == 0) {
				continue
			}
			e.used = true
			e.stepIdx = si
			// does this entry's result allow a next step?
			cont := e.Ret != 0 && e.RetErr == nil && e.RetEv != nil
			wantCont := si+1 < len(tr.Steps)
			ok := false
			switch {
			case wantCont && cont:
				ok = rec(ti, si+1, e, usedCnt+1)
				if !ok && !full {
					ok = rec(ti+1, 0, nil, usedCnt+1) // prefix ends here
				}
			case wantCont && !cont:
				if !full {
					ok = rec(ti+1, 0, nil, usedCnt+1)
				}
			case !wantCont:
				// last expected step: behaviour must not call for a successor
				ok = rec(ti+1, 0, nil, usedCnt+1)
			}
			if ok {
				return true
			}
			e.used = false
		}
		if !full && si == 0 {
			// traversal not started at all
			return rec(ti+1, 0, nil, usedCnt)
		}
		return false
	}
	if rec(0, 0, nil, 0) {
		return true, ""
	}
	return false, "no decomposition of the observed node invocations into the expected pipeline traversals exists"
}

func describeExpected(exp []Traversal) []string {
	var out []string
	for _, tr := range exp {
		s := fmt.Sprintf("%s/%s v%d:", tr.Pipe.typ, tr.Pipe.pid, tr.Pipe.version)
		for _, st := range tr.Steps {
			s += fmt.Sprintf(" %s(%s)[%s]%s", st.Obj.Obj, st.Obj.ID, st.Prov, st.Beh)
		}
		out = append(out, s)
	}
	return out
}

func describeEntries(es []*Entry) []string {
	var out []string
	for _, e := range es {
		out = append(out, e.String())
	}
	return out
}
