package broker

import (
	"context"
	"fmt"
	"runtime"
	"sync"
	"sync/atomic"
	"testing"
	"time"

	"github.com/hashicorp/eventlogger"

	"verifharness/internal/rt"
)

// alphabet used by C01/C02/C03 configurations: nodes are shared within and
// across event types, pipeline ids are reused across types.
func cfgAlphabet(r *rt.Rand) Alphabet {
	nt := r.Range(1, 3)
	return Alphabet{
		Types:     []string{"t0", "t1", "t2"}[:nt],
		Pids:      []string{"p0", "p1", "p2", "p3"},
		Filters:   []string{"f0", "f1", "f2"},
		Fmts:      []string{"m0", "m1"},
		Sinks:     []string{"k0", "k1"},
		Policies:  []string{"", "", "AllowOverwrite"},
		Malformed: 8,
		DupIDs:    10,
	}
}

// buildConfig produces a registry through a random history, replayed on the
// model. It returns false if the real broker contradicted the model on the way
// (that is C05/C06/C07's subject and makes the expected traversals unusable).
func buildConfig(w *World, a Alphabet, style NodeStyle, r *rt.Rand, nops int) ([]Op, string) {
	var ops []Op
	for _, op := range a.Prologue(r) {
		ops = append(ops, op)
		if out := w.Apply(op, style); out.Mismatch != "" {
			return ops, out.Mismatch
		}
	}
	for i := 0; i < nops; i++ {
		op := a.GenOpM(r, w.M)
		op.CloseFail = false
		ops = append(ops, op)
		if out := w.Apply(op, style); out.Mismatch != "" {
			return ops, out.Mismatch
		}
	}
	return ops, ""
}

func randStyle(r *rt.Rand) NodeStyle {
	switch r.Intn(4) {
	case 0:
		return NodeStyle{Weights: [4]int{1, 0, 0, 0}, SinkWeights: [4]int{0, 0, 1, 0}}
	case 1:
		return NodeStyle{Weights: [4]int{5, 3, 1, 1}, SinkWeights: [4]int{1, 1, 6, 1}}
	case 2:
		return NodeStyle{Weights: [4]int{2, 2, 2, 2}, SinkWeights: [4]int{2, 2, 2, 2}}
	default:
		return NodeStyle{Weights: [4]int{6, 2, 1, 0}, SinkWeights: [4]int{0, 0, 3, 1}}
	}
}

func TestC01(t *testing.T) {
	run := rt.Start(t, "C01")
	defer run.Finish()
	r := run.Rand()
	ncfg := run.N(1600, 60000)
	for c := 0; c < ncfg; c++ {
		if run.Stop() {
			break
		}
		cr := r.Fork()
		if c%50 == 25 {
			c01Storm(run, cr.Fork())
		}
		w := NewWorld(cr.Fork())
		a := cfgAlphabet(cr)
		style := randStyle(cr)
		stop := cr.Intn(3) == 0
		var stopAt time.Time
		if stop {
			stopAt = time.Unix(1700000000+int64(cr.Intn(1000000)), int64(cr.Intn(1000000000)))
			w.B.StopTimeAt(stopAt)
		}
		// an event type may be known to the Broker before its first pipeline (threshold 0 asks for nothing)
		if cr.Intn(3) == 0 {
			for _, ty := range a.Types {
				switch cr.Intn(4) {
				case 0:
					w.B.SetSuccessThreshold(eventlogger.EventType(ty), 0)
				case 1:
					w.B.SetSuccessThresholdSinks(eventlogger.EventType(ty), 0)
				}
			}
			run.Add("configurations_with_thresholds_set_first", 1)
		}
		ops, mis := buildConfig(w, a, style, cr, cr.Range(3, 14))
		run.Progress("C01 cfg=%d ops=%v", c, opsString(ops))
		if mis != "" {
			run.Inconclusive("registry diverged from the model while building the configuration (C05/C06/C07's subject): " + mis)
			continue
		}
		npipes, shared := 0, false
		seen := map[string]int{}
		for _, p := range w.M.pipes {
			npipes++
			for _, id := range p.ids {
				seen[id]++
				if seen[id] > 1 {
					shared = true
				}
			}
		}
		types := append([]string{}, a.Types...)
		types = append(types, "unregistered-type")
		for _, ty := range types {
			nsend := cr.Range(1, 3)
			for s := 0; s < nsend; s++ {
				cancelAt := 0
				if s > 0 && cr.Intn(2) == 0 {
					cancelAt = -1
					if cr.Intn(3) > 0 {
						cancelAt = cr.Range(1, 30)
					}
				}
				yr := cr.Fork()
				o := w.DoSend(ty, cancelAt, yr, 30)
				o.Quiesce(w, 5*time.Second)
				if len(o.Survivors) > 0 || w.Log.Running() > 0 {
					run.Inconclusive("Send's goroutines did not quiesce (C03's subject)")
					continue
				}
				checkC01(run, w, o, ops, stop, stopAt)
				sig := ""
				if len(o.Expected) >= 2 && shared {
					sig = fmt.Sprintf("%v|%v|%d", describeShape(o.Expected), o.Cancelled, len(o.Entries))
				}
				run.Eval(sig)
				run.SetAdd("traces", o.Trace.Sig())
				if o.Cancelled {
					run.Add("cancelled_sends", 1)
				}
				run.Add("node_invocations", len(o.Entries))
				if run.NeedSample() && len(o.Expected) >= 2 {
					run.Sample(map[string]any{"history": opsString(ops), "send_type": ty, "cancel_at": cancelAt,
						"expected_traversals": describeExpected(o.Expected), "observed": describeEntries(o.Entries)})
				}
			}
		}
		_ = npipes
		// concurrent Sends on the same registry: every Send's invocations (told apart by its unique
		// provenance) must decompose on their own, whatever the interleaving of the fan-outs
		if c%4 == 0 {
			nconc := cr.Range(2, 6)
			obs := make([]*SendObs, nconc)
			var wg sync.WaitGroup
			bar := rt.NewBarrier(nconc)
			for k := 0; k < nconc; k++ {
				ty := rt.Pick(cr, a.Types)
				yr := cr.Fork()
				wg.Add(1)
				go func(k int) {
					defer wg.Done()
					bar.Wait()
					obs[k] = w.DoSendConcurrent(ty, yr, 40)
				}(k)
			}
			wg.Wait()
			rt.WaitNoGoroutine(5*time.Second, "eventlogger.(*graph).process", "eventlogger.(*graph).doProcess")
			for _, o := range obs {
				o.Entries = w.Log.ForSend(o.SendID)
				checkC01(run, w, o, ops, stop, stopAt)
				run.Eval(fmt.Sprintf("conc|%v|%d", describeShape(o.Expected), nconc))
				run.Add("concurrent_sends", 1)
			}
		}
	}
	_ = runtime.NumGoroutine
}

// stormNode counts invocations and the events that do not carry the type its pipeline was registered for.
type stormNode struct {
	typ       eventlogger.NodeType
	et        eventlogger.EventType
	n, wrong  int64
	nilEvents int64
}

func (s *stormNode) Process(_ context.Context, e *eventlogger.Event) (*eventlogger.Event, error) {
	atomic.AddInt64(&s.n, 1)
	switch {
	case e == nil:
		atomic.AddInt64(&s.nilEvents, 1)
	case e.Type != s.et:
		atomic.AddInt64(&s.wrong, 1)
	}
	if s.typ == eventlogger.NodeTypeSink {
		return nil, nil
	}
	return e, nil
}
func (s *stormNode) Reopen() error              { return nil }
func (s *stormNode) Type() eventlogger.NodeType { return s.typ }

// c01Storm: Sends of several event types at the same time on one Broker, nothing else going on. Judged by
// conservation after the senders have finished: every node of every pipeline of a type was invoked once per Send
// of that type, and never with an event of another type.
func c01Storm(run *rt.Run, r *rt.Rand) {
	ctx := context.Background()
	b, err := eventlogger.NewBroker()
	if err != nil {
		run.Inconclusive(err.Error())
		return
	}
	ntypes, per, nsend := r.Range(2, 4), r.Range(1, 3), r.Range(300, 1500)
	type pl struct{ f, m, k *stormNode }
	pipes := map[string][]pl{}
	sends := map[string]*int64{}
	for t := 0; t < ntypes; t++ {
		et := eventlogger.EventType(fmt.Sprintf("st%d", t))
		sends[string(et)] = new(int64)
		for p := 0; p < r.Range(1, 3); p++ {
			x := pl{&stormNode{typ: eventlogger.NodeTypeFilter, et: et}, &stormNode{typ: eventlogger.NodeTypeFormatter, et: et}, &stormNode{typ: eventlogger.NodeTypeSink, et: et}}
			ids := []eventlogger.NodeID{}
			for i, n := range []*stormNode{x.f, x.m, x.k} {
				id := eventlogger.NodeID(fmt.Sprintf("sn-%d-%d-%d", t, p, i))
				b.RegisterNode(id, n)
				ids = append(ids, id)
			}
			if err := b.RegisterPipeline(eventlogger.Pipeline{EventType: et, PipelineID: eventlogger.PipelineID(fmt.Sprintf("sp%d", p)), NodeIDs: ids}); err != nil {
				run.Inconclusive("storm: " + err.Error())
				return
			}
			pipes[string(et)] = append(pipes[string(et)], x)
		}
	}
	var wg sync.WaitGroup
	var sendErrs int64
	for t := 0; t < ntypes; t++ {
		et := eventlogger.EventType(fmt.Sprintf("st%d", t))
		for g := 0; g < per; g++ {
			wg.Add(1)
			go func() {
				defer wg.Done()
				for i := 0; i < nsend; i++ {
					if _, err := b.Send(ctx, et, i); err != nil {
						atomic.AddInt64(&sendErrs, 1)
					}
					atomic.AddInt64(sends[string(et)], 1)
				}
			}()
		}
	}
	wg.Wait()
	desc := fmt.Sprintf("storm: %d event types, %d senders per type, %d Sends each, nothing else running", ntypes, per, nsend)
	run.Add("storm_sends", ntypes*per*nsend)
	run.Eval(fmt.Sprintf("storm|%d|%d|%d", ntypes, per, nsend))
	for et, ps := range pipes {
		want := atomic.LoadInt64(sends[et])
		for pi, x := range ps {
			for _, n := range []*stormNode{x.f, x.m, x.k} {
				if n.wrong != 0 || n.nilEvents != 0 {
					run.Violation("history-pattern:storm:foreign-event", fmt.Sprintf("a node of pipeline %d of type %s was invoked %d times with an event of another type (%d times with nil)", pi, et, n.wrong, n.nilEvents), desc)
					return
				}
				if n.n != want {
					run.Violation("history-pattern:storm:traversal-count", fmt.Sprintf("%d Sends of type %s returned, yet a node of its pipeline %d was invoked %d times", want, et, pi, n.n), desc)
					return
				}
			}
		}
	}
	if sendErrs != 0 {
		run.Violation("history-pattern:storm:send-error", fmt.Sprintf("%d Sends failed although every pipeline completes and no threshold is set", sendErrs), desc)
	}
}

func describeShape(exp []Traversal) string {
	s := ""
	for _, tr := range exp {
		for _, st := range tr.Steps {
			s += string(st.Obj.ID) + ":" + st.Beh.String()[:1] + ","
		}
		s += ";"
	}
	return s
}

func checkC01(run *rt.Run, w *World, o *SendObs, ops []Op, stop bool, stopAt time.Time) {
	wit := func() any {
		return map[string]any{"history": opsString(ops), "send": o.SendID, "type": o.Type, "cancel_at": o.CancelAt, "cancel_point": o.CancelPt,
			"expected_traversals": describeExpected(o.Expected), "observed": describeEntries(o.Entries), "trace": o.Trace.Points()}
	}
	// node k+1 is invoked iff node k returned a non-nil event: no node is ever handed a nil event (such invocations
	// carry no provenance and are in no Send's entry list; the log keeps them aside)
	if nils := w.Log.TakeNilEvents(); len(nils) > 0 {
		var at []string
		for _, e := range nils {
			at = append(at, fmt.Sprintf("%s(id %s) ctx done=%v", e.Node.Obj, e.Node.ID, e.CtxDone))
		}
		run.Violation("history-pattern:nil-event", fmt.Sprintf("%d node invocation(s) were handed a nil event (the previous node dropped the event): %v", len(nils), at), wit())
	}
	// root clauses: what the first node of a traversal receives
	roots := map[*RecNode]bool{}
	for _, tr := range o.Expected {
		if len(tr.Steps) > 0 {
			roots[tr.Steps[0].Obj] = true
		}
	}
	for _, e := range o.Entries {
		if e.Prov != o.SendID {
			continue // created by a replacing node
		}
		if e.Ev == nil {
			run.Violation("history-pattern:nil-event", "a node was invoked with a nil event", wit())
			continue
		}
		if string(e.EvType) != o.Type {
			run.Violation("history-pattern:wrong-type", fmt.Sprintf("node saw event type %q for a Send of type %q", e.EvType, o.Type), wit())
		}
		if e.Payload != any(o.Payload) {
			run.Violation("history-pattern:wrong-payload", "node did not see the very payload that was sent", wit())
		}
		if stop {
			if !e.Created.Equal(stopAt) {
				run.Violation("history-pattern:created-at", "CreatedAt differs from the StopTimeAt instant", wit())
			}
		} else if e.Created.IsZero() || e.Created.Before(o.T0.Add(-time.Millisecond)) || e.Created.After(o.T1.Add(time.Millisecond)) {
			run.Violation("history-pattern:created-at", fmt.Sprintf("CreatedAt %v outside the Send call interval [%v,%v]", e.Created, o.T0, o.T1), wit())
		}
	}
	full := !o.Cancelled
	ok, why := decompose(o.Expected, o.Entries, full)
	{
		// the first node of every traversal is promised an empty (non-nil) format table. Which invocations
		// are "first" is read off the event pointers, not off the decomposition (ambiguous for cancelled
		// Sends): an invocation is a first one when no earlier invocation of this Send handed on (returned,
		// without an error) the event object it receives. (Not "the earliest invocation per event object":
		// that presumes what is to be checked, that no two pipelines are given the same object.)
		var first []*Entry
		for _, e := range o.Entries {
			if e.Prov != o.SendID || e.Ev == nil {
				continue
			}
			handedOn := false
			for _, x := range o.Entries {
				if x != e && x.RetEv == e.Ev && x.RetErr == nil && x.Ret != 0 && x.Ret <= e.Call {
					handedOn = true
					break
				}
			}
			if !handedOn {
				first = append(first, e)
			}
		}
		for _, e := range first {
			if e.FmtNil || e.FmtLen != 0 {
				run.Violation("history-pattern:format-table", fmt.Sprintf("the first node to receive the event of a pipeline saw a format table that is nil=%v / holds %d entries", e.FmtNil, e.FmtLen), wit())
				break
			}
		}
	}
	if !ok {
		key := "history-pattern:traversal"
		if o.Cancelled {
			key = "history-pattern:traversal-cancelled"
		}
		run.Violation(key, why, wit())
	}
	if o.Type == "unregistered-type" && len(o.Entries) != 0 {
		run.Violation("history-pattern:foreign-type", "a Send of a type without pipelines invoked nodes", wit())
	}
	_ = eventlogger.NodeTypeSink
}
