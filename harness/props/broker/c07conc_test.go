package broker

import "verifharness/internal/rt"

// c07Concurrent is implemented with the C04 machinery (marker nodes + linearizability).
func c07Concurrent(run *rt.Run, r *rt.Rand) {}
