package broker

import (
	"fmt"

	"verifharness/internal/rt"
)

// c07Concurrent: one or two goroutines overwrite (t0,p0) v1->v2->...->vn while 2..6
// senders run. The key is continuously present, so every Send must be processed by
// exactly one version (never none, never two) and the register must be linearizable
// (only the new version once the overwriting call has returned).
func c07Concurrent(run *rt.Run, r *rt.Rand) {
	nh := run.N(180, 6000)
	for i := 0; i < nh && !run.Stop(); i++ {
		cr := r.Fork()
		nover, nsenders, nops := cr.Range(1, 2), cr.Range(2, 6), cr.Range(40, 150)
		run.Progress("C07 concurrent %d overwriters=%d senders=%d ops=%d", i, nover, nsenders, nops)
		w, desc := runConcHistory(run, cr, nover, nsenders, nops, 0, true, true)
		wit := func() any { return desc }
		w.analyse(run, wit)
		// never neither: the key is present from before the first Send
		w.h.mu.Lock()
		for _, o := range w.h.ops {
			if o.Kind == "send" && len(w.h.marks[o.SendID]) == 0 {
				run.Violation("history-pattern:no-version", fmt.Sprintf("Send %s was processed by no version of a pipeline that was registered throughout", o.SendID), wit())
				break
			}
		}
		nops2 := len(w.h.ops)
		w.h.mu.Unlock()
		run.Add("concurrent_recorded_calls", nops2)
		run.Eval(fmt.Sprintf("conc|%v|%d", desc, nops2))
	}
	// racing registrations of ONE key with DenyOverwrite in the mix: once a Deny registration returned,
	// every later registration must fail until the pipeline is removed (register model with policy)
	nd := run.N(120, 4000)
	singleKey = true
	defer func() { singleKey = false }()
	for i := 0; i < nd && !run.Stop(); i++ {
		cr := r.Fork()
		nact, nsenders, nops := cr.Range(2, 6), cr.Range(1, 3), cr.Range(30, 100)
		run.Progress("C07 deny race %d actors=%d", i, nact)
		w, desc := runConcHistory(run, cr, nact, nsenders, nops, 50, cr.Bool(), false)
		wit := func() any { return desc }
		w.analyse(run, wit)
		run.Eval(fmt.Sprintf("deny|%v|%d", desc, len(w.h.ops)))
	}
}
