package broker

import (
	"context"
	"errors"
	"fmt"
	"strings"

	"github.com/hashicorp/eventlogger"

	"verifharness/internal/rt"
)

// Op is one call of a registry history.
type Op struct {
	Kind   string   `json:"op"` // regnode regpipe rmpipe rmpipenodes rmnode
	Type   string   `json:"type,omitempty"`
	Pid    string   `json:"pid,omitempty"`
	ID     string   `json:"id,omitempty"`
	IDs    []string `json:"ids,omitempty"`
	Policy string   `json:"policy,omitempty"`
	NT     int      `json:"nodetype,omitempty"` // node type for regnode
	// CloseFail makes the registered node object's Close fail.
	CloseFail bool `json:"closefail,omitempty"`
	// CtxDone: the call is made with an already cancelled context (RemoveNode, RemovePipelineAndNodes).
	CtxDone bool `json:"ctxdone,omitempty"`
	// SameObj: regnode offers the very node object that is registered under the id already (if any).
	SameObj bool `json:"sameobj,omitempty"`
}

func (o Op) String() string {
	switch o.Kind {
	case "regnode":
		if o.SameObj {
			return fmt.Sprintf("RegisterNode(%s,the object registered under it,%s)", o.ID, o.Policy)
		}
		return fmt.Sprintf("RegisterNode(%s,type=%d,%s)", o.ID, o.NT, o.Policy)
	case "regpipe":
		return fmt.Sprintf("RegisterPipeline(%s/%s,[%s],%s)", o.Type, o.Pid, strings.Join(o.IDs, ","), o.Policy)
	case "rmpipe":
		return fmt.Sprintf("RemovePipeline(%s/%s)", o.Type, o.Pid)
	case "rmpipenodes":
		if o.CtxDone {
			return fmt.Sprintf("RemovePipelineAndNodes(cancelled ctx,%s/%s)", o.Type, o.Pid)
		}
		return fmt.Sprintf("RemovePipelineAndNodes(%s/%s)", o.Type, o.Pid)
	case "rmnode":
		if o.CtxDone {
			return fmt.Sprintf("RemoveNode(cancelled ctx,%s)", o.ID)
		}
		return fmt.Sprintf("RemoveNode(%s)", o.ID)
	}
	return o.Kind
}

func opsString(ops []Op) []string {
	out := make([]string, len(ops))
	for i, o := range ops {
		out[i] = o.String()
	}
	return out
}

// Outcome is what a step did on the real broker, next to what the model demands.
type Outcome struct {
	Op       Op
	RealOK   bool // call returned no error (rmpipenodes: returned true)
	RealErr  error
	ModelOK  bool
	ModelSet bool       // the model constrains RealOK for this op
	Node     *RecNode   // regnode: the object offered for registration
	Closed   []*RecNode // model: objects that must have been closed exactly once by this step
	RmNode   rmNodeResult
	Mismatch string // non-empty: real result contradicts the model
}

// weights used for node behaviours of a world; set by the caller.
type NodeStyle struct {
	Weights     [4]int
	SinkWeights [4]int
}

var plainStyle = NodeStyle{Weights: [4]int{1, 0, 0, 0}, SinkWeights: [4]int{0, 0, 1, 0}}

func (w *World) newNode(id string, nt int, style NodeStyle) *RecNode {
	wt := style.Weights
	if eventlogger.NodeType(nt) == eventlogger.NodeTypeSink {
		wt = style.SinkWeights
	}
	return NewRecNode(w.Log, id, eventlogger.NodeType(nt), w.rng.Uint64(), wt)
}

// Apply executes op on the real broker and on the model.
func (w *World) Apply(op Op, style NodeStyle) Outcome {
	out := Outcome{Op: op}
	ctx := context.Background()
	if op.CtxDone {
		c, cancel := context.WithCancel(ctx)
		cancel()
		ctx = c
	}
	switch op.Kind {
	case "regnode":
		n := w.newNode(op.ID, op.NT, style)
		if cur, ok := w.M.nodes[op.ID]; ok && op.SameObj {
			n = cur.obj
		}
		if op.CloseFail {
			n.CloseErr = &NodeErr{Obj: n.Obj, Prov: "close"}
		}
		out.Node = n
		err := w.B.RegisterNode(eventlogger.NodeID(op.ID), n.asRegistered(), policyOpts(true, op.Policy)...)
		out.RealOK, out.RealErr = err == nil, err
		out.ModelOK, out.ModelSet = w.M.RegisterNode(op.ID, n, op.Policy), true
	case "regpipe":
		err := w.B.RegisterPipeline(eventlogger.Pipeline{PipelineID: eventlogger.PipelineID(op.Pid), EventType: eventlogger.EventType(op.Type), NodeIDs: toNodeIDs(op.IDs)}, policyOpts(false, op.Policy)...)
		out.RealOK, out.RealErr = err == nil, err
		out.ModelOK, out.ModelSet = w.M.RegisterPipeline(op.Type, op.Pid, op.IDs, op.Policy), true
	case "rmpipe":
		err := w.B.RemovePipeline(eventlogger.EventType(op.Type), eventlogger.PipelineID(op.Pid))
		out.RealOK, out.RealErr = err == nil, err
		w.M.RemovePipeline(op.Type, op.Pid)
	case "rmpipenodes":
		// close counts before
		ok, err := w.B.RemovePipelineAndNodes(ctx, eventlogger.EventType(op.Type), eventlogger.PipelineID(op.Pid))
		out.RealOK, out.RealErr = ok, err
		out.ModelOK, out.Closed = w.M.RemovePipelineAndNodes(op.Type, op.Pid)
		out.ModelSet = true
	case "rmnode":
		err := w.B.RemoveNode(ctx, eventlogger.NodeID(op.ID))
		out.RealOK, out.RealErr = err == nil, err
		var obj *RecNode
		out.RmNode, obj = w.M.RemoveNode(op.ID)
		if obj != nil {
			out.Closed = []*RecNode{obj}
		}
		switch out.RmNode {
		case rmNotFound:
			out.ModelOK, out.ModelSet = false, true
			if err != nil && !errors.Is(err, eventlogger.ErrNodeNotFound) && op.ID != "" {
				out.Mismatch = "RemoveNode of an unregistered id did not return ErrNodeNotFound"
			}
		case rmInUse:
			out.ModelOK, out.ModelSet = false, true
		case rmRemoved:
			// the call returns the node's Close error, if any
			out.ModelOK, out.ModelSet = obj.CloseErr == nil, true
		}
	default:
		panic("unknown op " + op.Kind)
	}
	if out.Mismatch == "" && out.ModelSet && out.RealOK != out.ModelOK {
		out.Mismatch = fmt.Sprintf("%s: real ok=%v (err=%v) but the specification says ok=%v", op, out.RealOK, out.RealErr, out.ModelOK)
	}
	return out
}

// Alphabet bounds the id space of generated histories.
type Alphabet struct {
	Types    []string
	Pids     []string
	Filters  []string // ids registered as filters
	Fmts     []string // formatter / formatter-filter ids
	Sinks    []string
	Policies []string // "" AllowOverwrite DenyOverwrite (and invalid ones if wanted)
	// probabilities in percent
	Malformed int // malformed pipeline definitions
	DupIDs    int // duplicate node ids within one pipeline
}

func (a Alphabet) allIDs() []string {
	var out []string
	out = append(out, a.Filters...)
	out = append(out, a.Fmts...)
	out = append(out, a.Sinks...)
	return out
}

func (a Alphabet) nodeTypeOf(id string, r *rt.Rand) int {
	if r.Intn(8) == 0 {
		// an id is not tied to a node type: re-registering it may change what kind of node it names, and a
		// pipeline definition that was well-formed may no longer be (the model reads the type off the object)
		return int(rt.Pick(r, []eventlogger.NodeType{eventlogger.NodeTypeFilter, eventlogger.NodeTypeFormatter, eventlogger.NodeTypeFormatterFilter, eventlogger.NodeTypeSink}))
	}
	for _, x := range a.Filters {
		if x == id {
			return int(eventlogger.NodeTypeFilter)
		}
	}
	for i, x := range a.Fmts {
		if x == id {
			if i%2 == 0 {
				return int(eventlogger.NodeTypeFormatter)
			}
			return int(eventlogger.NodeTypeFormatterFilter)
		}
	}
	return int(eventlogger.NodeTypeSink)
}

// GenPipeIDs draws a node list: 0..3 filters (+ duplicates), a formatter, a sink;
// sometimes malformed.
func (a Alphabet) GenPipeIDs(r *rt.Rand) []string {
	var ids []string
	nf := r.Intn(4)
	for i := 0; i < nf; i++ {
		if len(ids) > 0 && r.Intn(100) < a.DupIDs {
			ids = append(ids, ids[r.Intn(len(ids))])
		} else if r.Intn(100) < 15 && len(a.Sinks) > 0 {
			// inner positions are not type-checked: a sink- or formatter-typed node may sit in the middle
			ids = append(ids, rt.Pick(r, append(append([]string{}, a.Sinks...), a.Fmts...)))
		} else if len(a.Filters) > 0 {
			ids = append(ids, rt.Pick(r, a.Filters))
		}
	}
	if r.Intn(100) < a.Malformed {
		switch r.Intn(6) {
		case 0:
			return ids // no formatter, no sink (possibly empty)
		case 1:
			return append(ids, rt.Pick(r, a.Sinks)) // sink without formatter
		case 2:
			return append(ids, rt.Pick(r, a.Fmts)) // no sink
		case 3:
			return append(ids, rt.Pick(r, a.Fmts), rt.Pick(r, a.Sinks), rt.Pick(r, a.Filters)) // filter after sink
		case 4:
			return append(ids, rt.Pick(r, a.Fmts), "", rt.Pick(r, a.Sinks)) // empty id
		default:
			return append(ids, rt.Pick(r, a.Fmts), "ghost") // unregistered id
		}
	}
	ids = append(ids, rt.Pick(r, a.Fmts), rt.Pick(r, a.Sinks))
	return ids
}

func (a Alphabet) pol(r *rt.Rand) string {
	if len(a.Policies) == 0 {
		return ""
	}
	return rt.Pick(r, a.Policies)
}

// GenOp draws one call.
func (a Alphabet) GenOp(r *rt.Rand) Op {
	switch x := r.Intn(100); {
	case x < 22:
		id := rt.Pick(r, a.allIDs())
		return Op{Kind: "regnode", ID: id, NT: a.nodeTypeOf(id, r), Policy: a.pol(r), CloseFail: r.Intn(10) == 0}
	case x < 60:
		return Op{Kind: "regpipe", Type: rt.Pick(r, a.Types), Pid: rt.Pick(r, a.Pids), IDs: a.GenPipeIDs(r), Policy: a.pol(r)}
	case x < 72:
		return Op{Kind: "rmpipe", Type: rt.Pick(r, a.Types), Pid: rt.Pick(r, a.Pids)}
	case x < 86:
		return Op{Kind: "rmpipenodes", Type: rt.Pick(r, a.Types), Pid: rt.Pick(r, a.Pids), CtxDone: r.Intn(6) == 0}
	default:
		return Op{Kind: "rmnode", ID: rt.Pick(r, a.allIDs()), CtxDone: r.Intn(6) == 0}
	}
}

// Prologue registers every id of the alphabet once.
func (a Alphabet) Prologue(r *rt.Rand) []Op {
	var ops []Op
	for _, id := range a.allIDs() {
		ops = append(ops, Op{Kind: "regnode", ID: id, NT: a.nodeTypeOf(id, r)})
	}
	return ops
}

// GenOpM is GenOp biased by the current registry: it sometimes re-registers an
// existing pipeline with the identical definition, or re-registers a node id
// that a registered pipeline lists (the histories in which stale captures matter).
func (a Alphabet) GenOpM(r *rt.Rand, m *Model) Op {
	if len(m.pipes) > 0 {
		switch x := r.Intn(100); {
		case x < 10:
			ps := m.PipesOf(rt.Pick(r, a.Types))
			if len(ps) > 0 {
				p := rt.Pick(r, ps)
				return Op{Kind: "regpipe", Type: p.typ, Pid: p.pid, IDs: append([]string(nil), p.ids...), Policy: a.pol(r)}
			}
		case x < 18:
			ps := m.PipesOf(rt.Pick(r, a.Types))
			if len(ps) > 0 {
				p := rt.Pick(r, ps)
				id := rt.Pick(r, p.ids)
				return Op{Kind: "regnode", ID: id, NT: a.nodeTypeOf(id, r), Policy: a.pol(r)}
			}
		}
	}
	return a.GenOp(r)
}
