package broker

import (
	"fmt"
	"testing"
	"time"

	"github.com/hashicorp/eventlogger"

	"verifharness/internal/rt"
)

// checkHistoryC07 runs a policy history next to the model: every return value must
// match (Deny is sticky until removal, Allow/default can be re-registered, invalid
// values are rejected without effect), and after every step a Send must be
// processed by exactly the node objects the surviving registrations captured.
func checkHistoryC07(run *rt.Run, ops []Op, types []string) string {
	w := NewWorld(rt.NewRand(5))
	sig := ""
	for i, op := range ops {
		out := w.Apply(op, plainStyle)
		wit := func(extra any) any {
			return map[string]any{"history": opsString(ops), "failing_step": i, "detail": extra}
		}
		if out.Mismatch != "" {
			run.Violation("history-pattern:policy-result:"+op.Kind, out.Mismatch, wit(nil))
			return sig
		}
		// re-registering a node id affects only pipelines registered afterwards: the objects the registered
		// pipelines captured keep working, in particular nothing closed them
		for _, t := range types {
			for _, p := range w.M.PipesOf(t) {
				for _, o := range p.objs {
					if o.Closes() > 0 {
						run.Violation("history-pattern:closed-in-use:"+op.Kind, fmt.Sprintf("after %s node object %s (id %s), which the registered pipeline %s/%s still uses, has been closed", op, o.Obj, o.ID, t, p.pid), wit(nil))
						return sig
					}
				}
			}
		}
		for _, t := range types {
			o := w.DoSend(t, 0, nil, 0)
			o.Quiesce(w, 5*time.Second)
			if ok, why := decompose(o.Expected, o.Entries, true); !ok {
				run.Violation("history-pattern:wrong-version-after:"+op.Kind, "after "+op.String()+" a Send of type "+t+" is not processed by exactly the registered versions: "+why,
					wit(map[string]any{"expected": describeExpected(o.Expected), "observed": describeEntries(o.Entries)}))
				return sig
			}
		}
		sig += fmt.Sprintf("%v%d;", out.RealOK, len(w.M.pipes))
	}
	return sig
}

func TestC07(t *testing.T) {
	run := rt.Start(t, "C07")
	defer run.Finish()
	r := run.Rand()
	pols := []string{"", "AllowOverwrite", "DenyOverwrite", "Sometimes"}
	F, M, K := int(eventlogger.NodeTypeFilter), int(eventlogger.NodeTypeFormatter), int(eventlogger.NodeTypeSink)
	var alpha []Op
	for _, p := range pols {
		alpha = append(alpha, Op{Kind: "regnode", ID: "f", NT: F, Policy: p})
		alpha = append(alpha, Op{Kind: "regpipe", Type: "t0", Pid: "p0", IDs: []string{"f", "m", "k"}, Policy: p})
		alpha = append(alpha, Op{Kind: "regpipe", Type: "t0", Pid: "p0", IDs: []string{"m", "k"}, Policy: p})
	}
	alpha = append(alpha,
		Op{Kind: "regnode", ID: "m", NT: M}, Op{Kind: "regnode", ID: "k", NT: K},
		Op{Kind: "regpipe", Type: "t1", Pid: "p0", IDs: []string{"f", "m", "k"}},
		// a second pipeline id of the same type: looking one id up must not depend on what else the type holds
		Op{Kind: "regpipe", Type: "t0", Pid: "p1", IDs: []string{"m", "k"}},
		Op{Kind: "rmnode", ID: "f"}, Op{Kind: "rmpipe", Type: "t0", Pid: "p0"}, Op{Kind: "rmpipenodes", Type: "t0", Pid: "p0"})
	// the same alphabet plus registrations that offer the node object already registered under the id
	alphaX := append([]Op{}, alpha...)
	for _, p := range []string{"", "AllowOverwrite", "DenyOverwrite"} {
		alphaX = append(alphaX, Op{Kind: "regnode", ID: "f", NT: F, Policy: p, SameObj: true})
	}
	for _, p := range []string{"ExplicitEmpty", "BogusThenDeny", "LowerDeny", "SpaceDeny", "DenyThenAllow", "AllowThenDeny"} {
		alphaX = append(alphaX, Op{Kind: "regnode", ID: "f", NT: F, Policy: p}, Op{Kind: "regpipe", Type: "t0", Pid: "p0", IDs: []string{"f", "m", "k"}, Policy: p})
	}
	special := func(op Op) bool {
		return op.SameObj || op.Policy == "ExplicitEmpty" || op.Policy == "BogusThenDeny" || op.Policy == "LowerDeny" || op.Policy == "SpaceDeny" || op.Policy == "DenyThenAllow" || op.Policy == "AllowThenDeny"
	}
	prologue := []Op{{Kind: "regnode", ID: "f", NT: F}, {Kind: "regnode", ID: "m", NT: M}, {Kind: "regnode", ID: "k", NT: K}}
	types := []string{"t0", "t1"}
	depth := run.Pick(4, 5)
	idx := 0
	var rec func(h []Op, d int)
	rec = func(h []Op, d int) {
		if run.Stop() {
			return
		}
		if len(h) == d {
			mine := idx%run.NBatch == run.Batch
			idx++
			if !mine {
				return
			}
			for _, pro := range [][]Op{prologue, nil} {
				full := append(append([]Op{}, pro...), h...)
				run.Progress("C07 exhaustive %v", opsString(full))
				sig := checkHistoryC07(run, full, types)
				run.Eval(fmt.Sprintf("x|%s|%v", sig, opsString(full)))
			}
			return
		}
		for _, op := range alpha {
			rec(append(h, op), d)
		}
	}
	for d := 1; d <= depth; d++ {
		rec(nil, d)
	}
	// exhaustive to depth 3 over the extended alphabet, histories that use a same-object registration only
	var recX func(h []Op, d int, uses bool)
	recX = func(h []Op, d int, uses bool) {
		if run.Stop() {
			return
		}
		if len(h) == d {
			if !uses {
				return
			}
			mine := idx%run.NBatch == run.Batch
			idx++
			if !mine {
				return
			}
			for _, pro := range [][]Op{prologue, nil} {
				full := append(append([]Op{}, pro...), h...)
				run.Progress("C07 exhaustive (same object) %v", opsString(full))
				sig := checkHistoryC07(run, full, types)
				run.Eval(fmt.Sprintf("x|%s|%v", sig, opsString(full)))
			}
			return
		}
		for _, op := range alphaX {
			recX(append(h, op), d, uses || special(op))
		}
	}
	for d := 1; d <= 3; d++ {
		recX(nil, d, false)
	}
	// sampled longer histories
	ns := run.N(10000, 1000000)
	for i := 0; i < ns && !run.Stop(); i++ {
		h := append([]Op{}, prologue...)
		n := r.Range(depth+1, 10)
		for j := 0; j < n; j++ {
			h = append(h, rt.Pick(r, alphaX))
		}
		run.Progress("C07 sampled %v", opsString(h))
		sig := checkHistoryC07(run, h, types)
		run.Eval(fmt.Sprintf("s|%s|%v", sig, opsString(h)))
		if run.NeedSample() {
			run.Sample(map[string]any{"policy_history": opsString(h), "result_trajectory": sig})
		}
	}
	c07Concurrent(run, r)
	c07CloseWindow(run)
	c07RegistrationWindow(run)
}
