package broker

import (
	"fmt"
	"testing"
	"time"

	"github.com/hashicorp/eventlogger"

	"verifharness/internal/rt"
)

var c06Style = NodeStyle{Weights: [4]int{1, 0, 0, 0}, SinkWeights: [4]int{0, 0, 1, 0}}

// checkHistoryC06 runs one history under the C06 oracle. It returns a
// signature of the model states visited (for the distinct-case count).
func checkHistoryC06(run *rt.Run, ops []Op, types, ids []string, probeEvery bool) string {
	rp := &Replay{W: NewWorld(rt.NewRand(7)), Origin: map[*RecNode]int{}}
	w := rp.W
	wit := func(step int, extra any) any {
		m := map[string]any{"history": opsString(ops), "failing_step": step, "detail": extra}
		counts, pipes := w.B.VerifSnapshot()
		m["broker_private_refcounts"] = fmt.Sprint(counts)
		m["broker_private_pipelines"] = fmt.Sprint(pipes)
		return m
	}
	sig := ""
	for i, op := range ops {
		snap := closeSnapshot(rp.Objs)
		out := w.Apply(op, c06Style)
		rp.Outs = append(rp.Outs, out)
		if out.Node != nil {
			rp.Origin[out.Node] = i
			rp.Objs = append(rp.Objs, out.Node)
		}
		if out.Mismatch != "" {
			run.Violation("history-pattern:return-value:"+op.Kind, out.Mismatch, wit(i, nil))
			return sig
		}
		// closes during this step: exactly the objects the model names, once each
		want := map[*RecNode]bool{}
		for _, o := range out.Closed {
			want[o] = true
		}
		for _, o := range rp.Objs {
			d := o.Closes() - snap[o]
			switch {
			case o.Closes() > 1:
				run.Violation("history-pattern:closed-twice", fmt.Sprintf("node object %s (id %s) was closed %d times", o.Obj, o.ID, o.Closes()), wit(i, nil))
				return sig
			case want[o] && d != 1:
				run.Violation("history-pattern:not-closed:"+op.Kind, fmt.Sprintf("%s must close node %s (no remaining pipeline lists it) but did not", op, o.ID), wit(i, nil))
				return sig
			case !want[o] && d != 0:
				run.Violation("history-pattern:closed-in-use:"+op.Kind, fmt.Sprintf("%s closed node %s although the specification does not allow it (still listed by a pipeline, or not part of the call)", op, o.ID), wit(i, nil))
				return sig
			}
		}
		// remaining pipelines still deliver (checked after the destructive calls)
		if op.Kind == "rmpipenodes" || op.Kind == "rmnode" || op.Kind == "rmpipe" {
			for _, t := range types {
				o := w.DoSend(t, 0, nil, 0)
				o.Quiesce(w, 5*time.Second)
				if ok, why := decompose(o.Expected, o.Entries, true); !ok {
					run.Violation("history-pattern:not-working-after:"+op.Kind, "after "+op.String()+" a Send of type "+t+" does not reach exactly the remaining pipelines: "+why,
						wit(i, map[string]any{"expected": describeExpected(o.Expected), "observed": describeEntries(o.Entries)}))
					return sig
				}
			}
		}
		// in-use accounting: destructive RemoveNode probes on a replayed copy of the prefix
		if probeEvery || i == len(ops)-1 {
			pr := replayOps(ops[:i+1], c06Style, 7)
			for _, id := range ids {
				exp := pr.expectProbe(id)
				got := pr.probeRemove(id)
				if exp != got {
					run.Violation("history-pattern:in-use-accounting", fmt.Sprintf("after step %d RemoveNode(%s): specification says %q, broker did %q", i, id, exp, got), wit(i, nil))
					return sig
				}
			}
		}
		sig += fmt.Sprintf("%d/%d;", len(w.M.pipes), len(w.M.nodes))
	}
	return sig
}

func c06Reduced() (ops []Op, types, ids []string) {
	types = []string{"t0", "t1"}
	ids = []string{"a", "m", "k"}
	nt := map[string]int{"a": int(eventlogger.NodeTypeFilter), "m": int(eventlogger.NodeTypeFormatter), "k": int(eventlogger.NodeTypeSink)}
	for _, id := range ids {
		ops = append(ops, Op{Kind: "regnode", ID: id, NT: nt[id]})
	}
	for _, t := range types {
		for _, p := range []string{"p0", "p1"} {
			ops = append(ops, Op{Kind: "regpipe", Type: t, Pid: p, IDs: []string{"a", "m", "k"}})
			ops = append(ops, Op{Kind: "regpipe", Type: t, Pid: p, IDs: []string{"a", "a", "m", "k"}})
			ops = append(ops, Op{Kind: "rmpipe", Type: t, Pid: p})
			ops = append(ops, Op{Kind: "rmpipenodes", Type: t, Pid: p})
		}
	}
	for _, id := range ids {
		ops = append(ops, Op{Kind: "rmnode", ID: id})
	}
	return
}

func TestC06(t *testing.T) {
	run := rt.Start(t, "C06")
	defer run.Finish()
	r := run.Rand()

	// ---- exhaustive histories over the reduced alphabet --------------------------------------
	alpha, types, ids := c06Reduced()
	prologue := []Op{alpha[0], alpha[1], alpha[2]}
	depthFull := run.Pick(4, 5)
	depthSampled := depthFull + 1
	idx := 0
	var rec func(h []Op, depth int)
	rec = func(h []Op, depth int) {
		if run.Stop() {
			return
		}
		if len(h) == depth {
			mine := idx%run.NBatch == run.Batch
			idx++
			if !mine {
				return
			}
			full := append(append([]Op{}, prologue...), h...)
			run.Progress("C06 exhaustive %v", opsString(full))
			sig := checkHistoryC06(run, full, types, ids, true)
			run.Eval("x|" + sig + "|" + fmt.Sprint(opsString(h)))
			run.Add("exhaustive_histories", 1)
			return
		}
		for _, op := range alpha {
			rec(append(h, op), depth)
		}
	}
	for d := 1; d <= depthFull; d++ {
		rec(nil, d)
	}
	if run.Batch == 0 {
		run.Add("exhaustive_depth_reached", depthFull)
	}
	// sampled histories one level deeper (PRNG-determined sample)
	ns := run.N(20000, 2000000)
	for i := 0; i < ns && !run.Stop(); i++ {
		h := append([]Op{}, prologue...)
		for j := 0; j < depthSampled; j++ {
			h = append(h, rt.Pick(r, alpha))
		}
		run.Progress("C06 sampled %v", opsString(h))
		sig := checkHistoryC06(run, h, types, ids, true)
		run.Eval("s|" + sig + "|" + fmt.Sprint(opsString(h[3:])))
	}

	// ---- random histories up to 60 over the full alphabet --------------------------------------
	a := Alphabet{
		Types: []string{"t0", "t1"}, Pids: []string{"p0", "p1", "p2"},
		Filters: []string{"f0", "f1"}, Fmts: []string{"m0"}, Sinks: []string{"k0"},
		Policies: []string{"", "", "", "AllowOverwrite"}, Malformed: 6, DupIDs: 25,
	}
	nr := run.N(600, 60000)
	for i := 0; i < nr && !run.Stop(); i++ {
		cr := r.Fork()
		n := cr.Range(4, 60)
		h := a.Prologue(cr)
		m := NewModel()
		// drive the generator with a shadow model so that biased ops (re-register, remove existing) apply
		shadow := NewWorld(cr.Fork())
		for _, op := range h {
			shadow.Apply(op, c06Style)
		}
		_ = m
		for j := 0; j < n; j++ {
			op := a.GenOpM(cr, shadow.M)
			if op.Kind == "rmpipe" || op.Kind == "rmpipenodes" {
				// prefer pipelines that exist
				if ps := shadow.M.PipesOf(op.Type); len(ps) > 0 && cr.Intn(3) > 0 {
					op.Pid = rt.Pick(cr, ps).pid
				}
			}
			shadow.Apply(op, c06Style)
			h = append(h, op)
		}
		run.Progress("C06 random %v", opsString(h))
		sig := checkHistoryC06(run, h, a.Types, a.allIDs(), n <= 24 || i%4 == 0)
		run.Eval("r|" + sig)
		run.Add("random_history_calls", len(h))
		if run.NeedSample() {
			run.Sample(map[string]any{"random_history": opsString(h)})
		}
	}
}
