//go:build verif

package broker

import (
	"context"
	"fmt"
	"sync"
	"sync/atomic"

	"github.com/hashicorp/eventlogger"

	"verifharness/internal/rt"
)

// dispNode: a node whose Process may run a callback (the first nodes of the pipelines do).
type dispNode struct {
	typ  eventlogger.NodeType
	n    int64
	hook func()
}

func (d *dispNode) Process(_ context.Context, e *eventlogger.Event) (*eventlogger.Event, error) {
	atomic.AddInt64(&d.n, 1)
	if d.hook != nil {
		d.hook()
	}
	if d.typ == eventlogger.NodeTypeSink {
		return nil, nil
	}
	return e, nil
}
func (d *dispNode) Reopen() error              { return nil }
func (d *dispNode) Type() eventlogger.NodeType { return d.typ }

// c02RemovalDuringDispatch: while a Send is handing the event to the pipelines of its type one after the other,
// a pipeline it has already passed is removed (by the first node of a later pipeline, i.e. between two
// dispatches - the first nodes run on the dispatching goroutine). Every pipeline that stays registered from
// before the Send until after it has exactly one entry in the Status and is traversed exactly once.
func c02RemovalDuringDispatch(run *rt.Run, r *rt.Rand) {
	ctx := context.Background()
	n := run.N(60, 3000)
	for it := 0; it < n && !run.Stop(); it++ {
		b, err := eventlogger.NewBroker()
		if err != nil {
			run.Inconclusive(err.Error())
			return
		}
		P := r.Range(3, 7)
		trigger := r.Range(1, P-2)  // the root invoked as number `trigger` (0-based) removes...
		victimAt := r.Intn(trigger) // ...the pipeline whose root was invoked as number victimAt
		withNodes := r.Bool()
		type pl struct {
			pid     eventlogger.PipelineID
			f, m, k *dispNode
			kid     eventlogger.NodeID
		}
		pls := make([]*pl, P)
		var mu sync.Mutex
		var order []*pl
		var removed *pl
		var rmErr error
		for i := 0; i < P; i++ {
			x := &pl{pid: eventlogger.PipelineID(fmt.Sprintf("dp%d", i)), f: &dispNode{typ: eventlogger.NodeTypeFilter}, m: &dispNode{typ: eventlogger.NodeTypeFormatter}, k: &dispNode{typ: eventlogger.NodeTypeSink}}
			pls[i] = x
			x.f.hook = func() {
				mu.Lock()
				order = append(order, x)
				me := len(order) - 1
				var v *pl
				if me == trigger && removed == nil {
					v = order[victimAt]
					removed = v
				}
				mu.Unlock()
				if v != nil {
					if withNodes {
						_, rmErr = b.RemovePipelineAndNodes(ctx, "dt", v.pid)
					} else {
						rmErr = b.RemovePipeline("dt", v.pid)
					}
				}
			}
			var ids []eventlogger.NodeID
			for j, nd := range []*dispNode{x.f, x.m, x.k} {
				id := eventlogger.NodeID(fmt.Sprintf("dn-%d-%d", i, j))
				b.RegisterNode(id, nd)
				ids = append(ids, id)
			}
			x.kid = ids[2]
			if err := b.RegisterPipeline(eventlogger.Pipeline{EventType: "dt", PipelineID: x.pid, NodeIDs: ids}); err != nil {
				run.Inconclusive("dispatch: " + err.Error())
				return
			}
		}
		st, serr := b.Send(ctx, "dt", "x")
		desc := fmt.Sprintf("%d pipelines of one type; the first node of the pipeline dispatched to as number %d removes (with nodes: %v) the pipeline dispatched to as number %d; removal error: %v; Send error: %v; complete=%v warnings=%d",
			P, trigger+1, withNodes, victimAt+1, rmErr, serr, idsToStrings(st.Complete()), len(st.Warnings))
		run.Eval(fmt.Sprintf("dispatch|%d|%d|%d|%v", P, trigger, victimAt, withNodes))
		run.Add("removal_during_dispatch_sends", 1)
		if removed == nil {
			run.Add("removal_during_dispatch_not_reached", 1)
			continue
		}
		count := map[eventlogger.NodeID]int{}
		for _, id := range st.Complete() {
			count[id]++
		}
		for i, x := range pls {
			if x == removed {
				continue
			}
			if f, k := atomic.LoadInt64(&x.f.n), atomic.LoadInt64(&x.k.n); f != 1 || k != 1 {
				run.Violation("history-pattern:dispatch:traversals", fmt.Sprintf("pipeline %d stayed registered throughout the Send, yet its first node ran %d times and its sink %d times", i, f, k), desc)
				break
			}
			if count[x.kid] != 1 {
				run.Violation("history-pattern:dispatch:entries", fmt.Sprintf("pipeline %d stayed registered throughout the Send and completed, yet Complete() names its sink %d times", i, count[x.kid]), desc)
				break
			}
		}
	}
}

// reNode counts Reopen calls; the first nodes of the pipelines run a callback from inside Reopen.
type reNode struct {
	typ     eventlogger.NodeType
	reopens int64
	hook    func()
}

func (d *reNode) Process(_ context.Context, e *eventlogger.Event) (*eventlogger.Event, error) {
	if d.typ == eventlogger.NodeTypeSink {
		return nil, nil
	}
	return e, nil
}
func (d *reNode) Reopen() error {
	atomic.AddInt64(&d.reopens, 1)
	if d.hook != nil {
		d.hook()
	}
	return nil
}
func (d *reNode) Type() eventlogger.NodeType { return d.typ }

// c20RemovalDuringReopen: while Broker.Reopen walks the pipelines of an event type, a pipeline it has already
// reached is removed (by a node of a pipeline reached later, from inside its Reopen). Every pipeline that stays
// registered from before the call until after it has every node reopened at least once.
func c20RemovalDuringReopen(run *rt.Run, r *rt.Rand) {
	ctx := context.Background()
	n := run.N(60, 3000)
	for it := 0; it < n && !run.Stop(); it++ {
		b, err := eventlogger.NewBroker()
		if err != nil {
			run.Inconclusive(err.Error())
			return
		}
		P := r.Range(3, 7)
		trigger := r.Range(1, P-2)
		victimAt := r.Intn(trigger + 1) // an earlier pipeline, or the very pipeline whose node is being reopened
		withNodes := r.Intn(3) == 0
		type pl struct {
			pid     eventlogger.PipelineID
			f, m, k *reNode
		}
		pls := make([]*pl, P)
		var mu sync.Mutex
		var order []*pl
		var removed *pl
		var rmErr error
		for i := 0; i < P; i++ {
			x := &pl{pid: eventlogger.PipelineID(fmt.Sprintf("rp%d", i)), f: &reNode{typ: eventlogger.NodeTypeFilter}, m: &reNode{typ: eventlogger.NodeTypeFormatter}, k: &reNode{typ: eventlogger.NodeTypeSink}}
			pls[i] = x
			x.f.hook = func() {
				mu.Lock()
				for _, o := range order {
					if o == x {
						mu.Unlock()
						return
					}
				}
				order = append(order, x)
				me := len(order) - 1
				var v *pl
				if me == trigger && removed == nil {
					v = order[victimAt]
					removed = v
				}
				mu.Unlock()
				if v != nil {
					if withNodes {
						_, rmErr = b.RemovePipelineAndNodes(ctx, "rt", v.pid)
					} else {
						rmErr = b.RemovePipeline("rt", v.pid)
					}
				}
			}
			var ids []eventlogger.NodeID
			for j, nd := range []*reNode{x.f, x.m, x.k} {
				id := eventlogger.NodeID(fmt.Sprintf("rn-%d-%d", i, j))
				b.RegisterNode(id, nd)
				ids = append(ids, id)
			}
			if err := b.RegisterPipeline(eventlogger.Pipeline{EventType: "rt", PipelineID: x.pid, NodeIDs: ids}); err != nil {
				run.Inconclusive("reopen walk: " + err.Error())
				return
			}
		}
		rerr := b.Reopen(ctx)
		desc := fmt.Sprintf("%d pipelines of one type; from inside Reopen, the first node of the pipeline reached as number %d removes (with nodes: %v) the pipeline reached as number %d; removal error: %v; Broker.Reopen returned %v",
			P, trigger+1, withNodes, victimAt+1, rmErr, rerr)
		run.Eval(fmt.Sprintf("reopen-walk|%d|%d|%d|%v", P, trigger, victimAt, withNodes))
		run.Add("removal_during_reopen_calls", 1)
		if removed == nil {
			run.Add("removal_during_reopen_not_reached", 1)
			continue
		}
		if rerr != nil {
			run.Add("removal_during_reopen_errors_not_judged", 1)
			continue
		}
		for i, x := range pls {
			if x == removed {
				continue
			}
			if f, m, k := atomic.LoadInt64(&x.f.reopens), atomic.LoadInt64(&x.m.reopens), atomic.LoadInt64(&x.k.reopens); f < 1 || m < 1 || k < 1 {
				run.Violation("history-pattern:reopen-missed", fmt.Sprintf("pipeline %d stayed registered throughout Broker.Reopen, which returned nil, yet its nodes were reopened %d/%d/%d times", i, f, m, k), desc)
				break
			}
		}
	}
}
