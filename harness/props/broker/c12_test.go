package broker

import (
	"context"
	"fmt"
	"sort"
	"strconv"
	"strings"
	"sync"
	"sync/atomic"
	"testing"
	"time"

	"github.com/hashicorp/eventlogger"
	"github.com/hashicorp/eventlogger/filters/gated"

	"verifharness/internal/rt"
)

const c12Watchdog = 8 * time.Second

// nilWrap is a filter node that claims to wrap another node and has none.
type nilWrap struct{}

func (*nilWrap) Process(_ context.Context, e *eventlogger.Event) (*eventlogger.Event, error) {
	return e, nil
}
func (*nilWrap) Reopen() error              { return nil }
func (*nilWrap) Type() eventlogger.NodeType { return eventlogger.NodeTypeFilter }
func (*nilWrap) Unwrap() eventlogger.Node   { return nil }

// c12Crowd: number of Sends in flight at once in the "crowd" scenarios
const c12Crowd = 200

// c12Progress counts the re-entrant sends of the scenario that is running (nil outside gated scenarios).
var c12Progress func() int64

// reentry describes what a node callback does.
type reentry struct {
	b          *eventlogger.Broker
	parkWriter bool
	writerKind string // regnode (default), setthr (threshold setters for the outer event type) or pipe (RegisterPipeline+RemovePipeline on the outer event type)
	writers    *sync.WaitGroup
	parked     *int32
	label      string
	sameType   bool
	self       eventlogger.Node // the node the callbacks run in (writer kind "regself" registers it again under its id)
}

var writerCtr int64

// enter is called from inside a node callback (Process/Close/Reopen) or from the
// gated filter's Sender: optionally make sure a writer is parked on the Broker's
// lock first, then call Send on the same Broker.
func (re *reentry) enter(ctx context.Context) {
	if re.parkWriter {
		id := fmt.Sprintf("writer-%d", atomic.AddInt64(&writerCtr, 1))
		done := make(chan struct{})
		re.writers.Add(1)
		frame := "eventlogger.(*Broker).RegisterNode"
		switch re.writerKind {
		case "setthr":
			frame = "eventlogger.(*Broker).SetSuccessThreshold"
		case "pipe":
			frame = "eventlogger.(*Broker).Re" // RegisterPipeline or RemovePipeline
		case "reopen":
			frame = "eventlogger.(*Broker).Reopen"
		case "regself":
			frame = "eventlogger.(*Broker).RegisterNode"
		}
		go func() {
			defer re.writers.Done()
			defer close(done)
			switch re.writerKind {
			case "regself":
				// the node that is in the middle of a callback is registered again (same object, same id)
				re.b.RegisterNode("x", re.self)
				return
			case "reopen":
				// not a writer of the registry, but a Broker operation that may want to wait for what is in flight
				re.b.Reopen(context.Background())
				return
			case "setthr":
				re.b.SetSuccessThreshold("to", 0)
				re.b.SetSuccessThresholdSinks("to", 0)
				return
			case "pipe":
				// a pipeline change on the very event type whose Send/Reopen/removal is in flight
				pid := eventlogger.PipelineID("pw-" + id)
				re.b.RegisterPipeline(eventlogger.Pipeline{PipelineID: pid, EventType: "to", NodeIDs: []eventlogger.NodeID{"im", "ik"}})
				re.b.RemovePipeline("to", pid)
				// and one that goes away together with its own nodes
				wm, wk := eventlogger.NodeID("wm-"+id), eventlogger.NodeID("wk-"+id)
				re.b.RegisterNode(wm, &plainNode{typ: eventlogger.NodeTypeFormatter})
				re.b.RegisterNode(wk, &plainNode{typ: eventlogger.NodeTypeSink})
				re.b.RegisterPipeline(eventlogger.Pipeline{PipelineID: pid + "-n", EventType: "to", NodeIDs: []eventlogger.NodeID{wm, wk}})
				re.b.RemovePipelineAndNodes(context.Background(), "to", pid+"-n")
				return
			}
			re.b.RegisterNode(eventlogger.NodeID(id), &plainNode{typ: eventlogger.NodeTypeFilter})
		}()
		// wait until the writer either finished (nobody holds the lock) or is parked on it
		deadline := time.Now().Add(300 * time.Millisecond)
	wait:
		for time.Now().Before(deadline) {
			select {
			case <-done:
				break wait
			default:
			}
			for _, g := range rt.Goroutines() {
				if g.Has(frame) && g.Parked() {
					atomic.AddInt32(re.parked, 1)
					break wait
				}
			}
			time.Sleep(200 * time.Microsecond)
		}
	}
	if re.sameType {
		re.b.Send(ctx, "to", &Tok{S: "inner-" + re.label})
		return
	}
	re.b.Send(ctx, "ti", &Tok{S: "inner-" + re.label})
}

// parkingSender is the gated filter's Broker: it re-enters the real one.
type parkingSender struct {
	re    *reentry
	sends int32
	fail  int32 // the first fail sends report an error (after re-entering), as a Broker whose threshold is not met does
}

var errInjectedSend = fmt.Errorf("injected: event not sent")

func (p *parkingSender) Send(ctx context.Context, t eventlogger.EventType, payload interface{}) (eventlogger.Status, error) {
	if n := atomic.AddInt32(&p.sends, 1); n <= atomic.LoadInt32(&p.fail) {
		if p.re.parkWriter {
			re := *p.re
			re.label = "gated-failing"
			re.enter(ctx)
		}
		return eventlogger.Status{}, errInjectedSend
	}
	if p.re.parkWriter {
		// park a writer first, then forward
		re := *p.re
		re.label = "gated"
		// enter() sends to "ti"; the composite itself goes to its own type afterwards
		re.enter(ctx)
	}
	return p.re.b.Send(ctx, t, payload)
}

type c12Scenario struct {
	Op       string // send reopen rmnode rmpipenodes seq
	Callback string // process close reopen gated-close gated-expire none
	Writer   bool
	WKind    string // kind of the concurrent writer: "" = RegisterNode, "setthr" = threshold setters
	Pending  int    // gated pending groups
	FailSend int    // the gated filter's first FailSend re-entrant sends report an error
	SameType bool   // the re-entrant Send goes to the event type of the Send it is made from
	Loop     bool   // the gated payloads are an application's own Gateable whose ComposeFrom returns a Gateable flush payload
}

// loopPayload is an application-defined Gateable that composes to a Gateable (flush) payload of the type the
// filter's own pipeline is registered for. The interface asks implementations not to; the filter defends itself
// (the group is refused), and whatever it does, the Broker call that triggered the flush has to return.
type loopPayload struct {
	ID    string
	Flush bool
}

func (l *loopPayload) GetID() string    { return l.ID }
func (l *loopPayload) FlushEvent() bool { return l.Flush }
func (l *loopPayload) ComposeFrom(events []*eventlogger.Event) (eventlogger.EventType, interface{}, error) {
	return "to", &loopPayload{ID: "composed", Flush: true}, nil
}

func (s c12Scenario) String() string {
	w := fmt.Sprint(s.Writer)
	if s.Writer && s.WKind != "" {
		w = s.WKind
	}
	if s.SameType {
		w += "/same-type"
	}
	if s.Loop {
		w += "/gateable-composite"
	}
	if s.FailSend > 0 {
		return fmt.Sprintf("%s/%s/writer=%s/pending=%d/failsend=%d", s.Op, s.Callback, w, s.Pending, s.FailSend)
	}
	return fmt.Sprintf("%s/%s/writer=%s/pending=%d", s.Op, s.Callback, w, s.Pending)
}

// innermostLibraryFrame returns the innermost frame of a goroutine dump if that frame is library code.
func innermostLibraryFrame(raw string) string {
	lines := strings.Split(raw, "\n")
	for _, l := range lines[1:] {
		l = strings.TrimSpace(l)
		if l == "" || strings.HasPrefix(l, "/") {
			continue
		}
		// first function line of the dump = innermost frame (runtime frames of a preempted goroutine are skipped)
		if strings.HasPrefix(l, "runtime.") || strings.HasPrefix(l, "sync.") || strings.HasPrefix(l, "sync/atomic.") {
			continue
		}
		if strings.Contains(l, "hashicorp/eventlogger") {
			return l[strings.LastIndex(l, "/")+1:]
		}
		return ""
	}
	return ""
}

// underWatchdog runs f on its own goroutine. On expiry the goroutine's state decides.
func underWatchdog(run *rt.Run, sc c12Scenario, what string, frame string, f func()) bool {
	done := make(chan struct{})
	go func() { defer close(done); f() }()
	select {
	case <-done:
		return true
	case <-time.After(c12Watchdog):
	}
	state := func() (string, bool, string) {
		gs := rt.Goroutines()
		// the goroutine of the call itself is the oldest one that matches (goroutines it started come later)
		sort.Slice(gs, func(i, j int) bool {
			a, _ := strconv.Atoi(gs[i].ID)
			b, _ := strconv.Atoi(gs[j].ID)
			return a < b
		})
		if sc.Op == "crowd" {
			// the calls run on goroutines of their own: all of them that are still inside Send must be parked
			n, parked, raw, lib := 0, true, "", ""
			for _, g := range gs {
				if g.State == "running" || !g.Has(frame) {
					continue
				}
				n++
				parked = parked && g.Parked()
				if raw == "" {
					raw = g.Raw
					for _, fr := range g.Frames {
						if strings.Contains(fr, "hashicorp/eventlogger") {
							lib = fr[strings.LastIndex(fr, "/")+1:]
							break
						}
					}
					lib = g.State + "@" + lib
				}
			}
			if n == 0 {
				return "", false, ""
			}
			return fmt.Sprintf("%s (%d Send calls have not returned, every one parked: %v)", lib, n, parked), parked, raw
		}
		for _, g := range gs {
			if g.State == "running" {
				continue // the goroutine taking this dump (it is inside underWatchdog, too)
			}
			if g.Has(frame) && g.Has("underWatchdog") {
				// report the innermost library frame
				lib := ""
				for _, fr := range g.Frames {
					if strings.Contains(fr, "hashicorp/eventlogger") {
						lib = fr[strings.LastIndex(fr, "/")+1:]
						break
					}
				}
				return g.State + "@" + lib, g.Parked(), g.Raw
			}
		}
		return "", false, ""
	}
	s1, p1, raw1 := state()
	time.Sleep(500 * time.Millisecond)
	s2, p2, raw := state()
	select {
	case <-done:
		run.Inconclusive("call returned only after the watchdog: " + sc.String() + " " + what)
		return true
	default:
	}
	if p1 && p2 && s1 == s2 {
		var all []string
		for _, g := range rt.Goroutines() {
			if g.Has("hashicorp/eventlogger") && g.Parked() {
				all = append(all, g.Raw)
			}
		}
		if len(all) > 6 {
			all = all[:6]
		}
		wk := fmt.Sprint(sc.Writer)
		if sc.Writer && sc.WKind != "" {
			wk = sc.WKind
		}
		run.Violation("deadlock:"+sc.Op+"/"+sc.Callback+"/writer="+wk, what+" did not return: its goroutine is parked forever at "+s1,
			map[string]any{"scenario": sc.String(), "goroutine": raw, "parked_library_goroutines": all})
	} else if inner1, inner2 := innermostLibraryFrame(raw1), innermostLibraryFrame(raw); !p1 && !p2 && inner1 != "" && inner2 != "" {
		// not parked and, both times, running library code itself (no node or harness frame above it): the call
		// is busy inside the library and has been for longer than the watchdog
		run.Violation("spin:"+sc.Op+"/"+sc.Callback, fmt.Sprintf("%s did not return within %v and its goroutine is busy inside the library (at %s, 500 ms later at %s) with no node running", what, c12Watchdog, inner1, inner2),
			map[string]any{"scenario": sc.String(), "goroutine": raw})
	} else if c12Progress != nil {
		// not parked: is the library calling back into the harness over and over? Every such call returned
		// (the harness never blocks), so the nodes do return and the Broker call still does not end
		n1 := c12Progress()
		time.Sleep(300 * time.Millisecond)
		n2 := c12Progress()
		if n2 > n1 && n2 > 5000 {
			run.Violation("livelock:"+sc.Op+"/"+sc.Callback, fmt.Sprintf("%s did not return within %v: the library keeps re-entering Send (%d calls so far, %d more in the last 300 ms, every one of them returned) for %d pending group(s)", what, c12Watchdog, n2, n2-n1, sc.Pending),
				map[string]any{"scenario": sc.String(), "goroutine": raw})
		} else {
			run.Inconclusive("call did not return within the watchdog but is not provably parked: " + sc.String() + " " + what + " state=" + s2)
		}
	} else {
		run.Inconclusive("call did not return within the watchdog but is not provably parked: " + sc.String() + " " + what + " state=" + s2)
	}
	return false
}

func runC12Scenario(run *rt.Run, sc c12Scenario) {
	b, _ := eventlogger.NewBroker()
	log := &Log{}
	var writers sync.WaitGroup
	var parked int32
	re := &reentry{b: b, parkWriter: sc.Writer, writerKind: sc.WKind, writers: &writers, parked: &parked, label: sc.String(), sameType: sc.SameType}
	must := func(err error) {
		if err != nil {
			panic(fmt.Sprintf("setup %s: %v", sc, err))
		}
	}
	// inner type: a plain pipeline that the callbacks send to
	must(b.RegisterNode("im", NewRecNode(log, "im", eventlogger.NodeTypeFormatter, 1, fixedBeh(Pass))))
	ikNode := NewRecNode(log, "ik", eventlogger.NodeTypeSink, 1, fixedBeh(Drop))
	must(b.RegisterNode("ik", ikNode))
	must(b.RegisterPipeline(eventlogger.Pipeline{PipelineID: "pi", EventType: "ti", NodeIDs: []eventlogger.NodeID{"im", "ik"}}))
	must(b.RegisterPipeline(eventlogger.Pipeline{PipelineID: "pc", EventType: "tc", NodeIDs: []eventlogger.NodeID{"im", "ik"}}))
	// outer type: [x (re-entrant), m, k]
	x := NewRecNode(log, "x", eventlogger.NodeTypeFilter, 1, fixedBeh(Pass))
	switch sc.Callback {
	case "process":
		x.OnProcess = func(ctx context.Context, n *RecNode, e *eventlogger.Event, ent *Entry) {
			if tok, ok := e.Payload.(*Tok); sc.SameType && ok && strings.HasPrefix(tok.S, "inner-") {
				return // the re-entrant Send of the same type reaches this node again; it does not re-enter twice
			}
			re.enter(ctx)
		}
	case "close":
		x.OnClose = func(ctx context.Context, n *RecNode) { re.enter(ctx) }
	case "reopen":
		x.OnReopen = func(n *RecNode) { re.enter(context.Background()) }
	}
	var clock int64 = 1_700_000_000
	now := func() time.Time { return time.Unix(atomic.LoadInt64(&clock), 0) }
	ps := &parkingSender{re: re, fail: int32(sc.FailSend)}
	c12Progress = func() int64 { return int64(atomic.LoadInt32(&ps.sends)) }
	defer func() { c12Progress = nil }()
	gf := &gated.Filter{Broker: ps, NowFunc: now, Expiration: 10 * time.Second}
	gatedMode := strings.HasPrefix(sc.Callback, "gated")
	if gatedMode {
		must(b.RegisterNode("x", gf))
		re.self = gf
	} else {
		must(b.RegisterNode("x", x))
		re.self = x
	}
	var crowdInside int64
	if sc.Op == "crowd" {
		// every outer Send waits inside the node until the whole crowd is inside (or 100 ms have passed), then all
		// of them re-enter at once: a Broker that rations what is in flight must not let the nested Sends starve
		x.OnProcess = func(ctx context.Context, n *RecNode, e *eventlogger.Event, ent *Entry) {
			tok, ok := e.Payload.(*Tok)
			if !ok || tok.S != "outer" {
				return
			}
			atomic.AddInt64(&crowdInside, 1)
			for t0 := time.Now(); atomic.LoadInt64(&crowdInside) < c12Crowd && time.Since(t0) < 100*time.Millisecond; {
				time.Sleep(200 * time.Microsecond)
			}
			re.enter(ctx)
		}
	}
	must(b.RegisterNode("m", NewRecNode(log, "m", eventlogger.NodeTypeFormatter, 1, fixedBeh(Pass))))
	kNode := NewRecNode(log, "k", eventlogger.NodeTypeSink, 1, fixedBeh(Drop))
	must(b.RegisterNode("k", kNode))
	must(b.RegisterPipeline(eventlogger.Pipeline{PipelineID: "po", EventType: "to", NodeIDs: []eventlogger.NodeID{"x", "m", "k"}}))
	ctx := context.Background()
	if gatedMode {
		for i := 0; i < sc.Pending; i++ {
			if !underWatchdog(run, sc, "Send (gating an event)", "eventlogger.(*Broker).Send", func() {
				if sc.Loop {
					b.Send(ctx, "to", &loopPayload{ID: fmt.Sprintf("g%d", i)})
					return
				}
				b.Send(ctx, "to", &gated.Payload{ID: fmt.Sprintf("g%d", i), Detail: map[string]interface{}{"k": i}})
			}) {
				return
			}
		}
		if sc.Callback == "gated-expire" {
			atomic.AddInt64(&clock, 60)
		}
	}
	ok := true
	switch sc.Op {
	case "send":
		ok = underWatchdog(run, sc, "Send", "eventlogger.(*Broker).Send", func() {
			var p interface{} = &Tok{S: "outer"}
			if gatedMode {
				p = &gated.Payload{ID: "trigger"}
				if sc.Loop {
					p = &loopPayload{ID: "trigger"}
				}
			}
			b.Send(ctx, "to", p)
		})
	case "nil-unwrap":
		// a registered node that is a NodeUnwrapper with nothing inside (Unwrap returns nil) and no Close of its own:
		// there is nothing to close, and the removal calls return
		must(b.RegisterNode("nw", &nilWrap{}))
		must(b.RegisterNode("nw2", &nilWrap{}))
		must(b.RegisterPipeline(eventlogger.Pipeline{PipelineID: "pnw", EventType: "tnw", NodeIDs: []eventlogger.NodeID{"nw2", "im", "ik"}}))
		ok = underWatchdog(run, sc, "RemoveNode(wrapper with nothing to unwrap)", "eventlogger.(*Broker).RemoveNode", func() { b.RemoveNode(ctx, "nw") })
		if ok {
			ok = underWatchdog(run, sc, "RemovePipelineAndNodes(wrapper with nothing to unwrap)", "eventlogger.(*Broker).RemovePipelineAndNodes", func() { b.RemovePipelineAndNodes(ctx, "tnw", "pnw") })
		}
	case "crowd":
		ok = underWatchdog(run, sc, fmt.Sprintf("%d concurrent Sends through a node that sends again", c12Crowd), "eventlogger.(*Broker).Send", func() {
			var wg sync.WaitGroup
			for i := 0; i < c12Crowd; i++ {
				wg.Add(1)
				go func() {
					defer wg.Done()
					b.Send(ctx, "to", &Tok{S: "outer"})
				}()
			}
			wg.Wait()
		})
	case "reopen":
		ok = underWatchdog(run, sc, "Reopen", "eventlogger.(*Broker).Reopen", func() { b.Reopen(ctx) })
	case "rmpipenodes":
		ok = underWatchdog(run, sc, "RemovePipelineAndNodes", "eventlogger.(*Broker).RemovePipelineAndNodes", func() { b.RemovePipelineAndNodes(ctx, "to", "po") })
	case "rmnode":
		ok = underWatchdog(run, sc, "RemovePipeline", "eventlogger.(*Broker).RemovePipeline", func() { b.RemovePipeline("to", "po") })
		if ok {
			ok = underWatchdog(run, sc, "RemoveNode", "eventlogger.(*Broker).RemoveNode", func() { b.RemoveNode(ctx, "x") })
		}
	case "rmnode-refused":
		// RemoveNode of a node in use must fail and leave the broker usable
		ok = underWatchdog(run, sc, "RemoveNode(in use)", "eventlogger.(*Broker).RemoveNode", func() { b.RemoveNode(ctx, "x") })
		if ok {
			ok = underWatchdog(run, sc, "RemoveNode(unknown)", "eventlogger.(*Broker).RemoveNode", func() { b.RemoveNode(ctx, "nope") })
		}
	case "regnode-over":
		// the pipeline goes away but its nodes stay registered; then the id of the re-entrant node (the gated filter
		// with its pending groups, or the node that re-enters from Close) is registered again with another node
		ok = underWatchdog(run, sc, "RemovePipeline", "eventlogger.(*Broker).RemovePipeline", func() { b.RemovePipeline("to", "po") })
		if ok {
			ok = underWatchdog(run, sc, "RegisterNode over the re-entrant node", "eventlogger.(*Broker).RegisterNode", func() {
				b.RegisterNode("x", &plainNode{typ: eventlogger.NodeTypeFilter})
			})
		}
	case "reopen-fail":
		// nodes of two (or three) event types fail in the same Reopen; the errors have to come back, the call too
		for _, o := range []*RecNode{ikNode, kNode} {
			o.ReopenErr = &NodeErr{Obj: o.Obj, Prov: "reopen"}
		}
		ok = underWatchdog(run, sc, "Reopen with failing nodes in several event types", "eventlogger.(*Broker).Reopen", func() { b.Reopen(ctx) })
	case "dup-ids":
		// a legal, if unusual, definition that lists a node id twice; registration, Send and removal must all return
		ok = underWatchdog(run, sc, "RegisterPipeline with a repeated node id", "eventlogger.(*Broker).RegisterPipeline", func() {
			b.RegisterPipeline(eventlogger.Pipeline{PipelineID: "pd", EventType: "td", NodeIDs: []eventlogger.NodeID{"x", "x", "m", "k"}})
		})
		if ok {
			ok = underWatchdog(run, sc, "Send through a pipeline with a repeated node id", "eventlogger.(*Broker).Send", func() { b.Send(ctx, "td", &Tok{S: "dup"}) })
		}
		if ok {
			ok = underWatchdog(run, sc, "RemovePipelineAndNodes of a pipeline with a repeated node id", "eventlogger.(*Broker).RemovePipelineAndNodes", func() { b.RemovePipelineAndNodes(ctx, "td", "pd") })
		}
	case "getters":
		// readers only: the threshold getters and IsAnyPipelineRegistered next to writers that take the write lock
		ok = underWatchdog(run, sc, "getters next to setters", "underWatchdog", func() {
			var gw sync.WaitGroup
			var stop int32
			for g := 0; g < 6; g++ {
				gw.Add(1)
				go func() {
					defer gw.Done()
					for atomic.LoadInt32(&stop) == 0 {
						b.SuccessThreshold("to")
						b.SuccessThresholdSinks("to")
						b.IsAnyPipelineRegistered("to")
					}
				}()
			}
			for k := 0; k < 4000; k++ {
				b.SetSuccessThreshold("to", k%2)
				b.SetSuccessThresholdSinks("to", 0)
				b.RegisterNode(eventlogger.NodeID(fmt.Sprintf("gw-%d", k%4)), &plainNode{typ: eventlogger.NodeTypeFilter})
			}
			atomic.StoreInt32(&stop, 1)
			gw.Wait()
		})
	case "failed-calls":
		// failing calls of every kind, then the probe below
		ok = underWatchdog(run, sc, "failing calls", "underWatchdog", func() {
			b.RegisterPipeline(eventlogger.Pipeline{PipelineID: "bad", EventType: "to", NodeIDs: []eventlogger.NodeID{"ghost", "k"}})
			b.RegisterPipeline(eventlogger.Pipeline{PipelineID: "bad", EventType: "to", NodeIDs: []eventlogger.NodeID{"x", "k"}})
			b.RegisterNode("x", x, eventlogger.WithNodeRegistrationPolicy("bogus"))
			b.RemovePipelineAndNodes(ctx, "to", "nope")
			b.RemovePipelineAndNodes(ctx, "nope", "po")
			b.RemovePipeline("nope", "po")
			b.SetSuccessThreshold("to", -1)
			b.SetSuccessThresholdSinks("", 1)
			b.Send(ctx, "nope", 1)
			// the same failures for event types the Broker has never seen (the first call for a type creates its
			// bookkeeping, a failing first call has to leave cleanly)
			b.RegisterPipeline(eventlogger.Pipeline{PipelineID: "bad", EventType: "fresh-1", NodeIDs: []eventlogger.NodeID{"ghost", "k"}})
			b.RegisterPipeline(eventlogger.Pipeline{PipelineID: "bad", EventType: "fresh-2", NodeIDs: []eventlogger.NodeID{"x", "k"}})
			b.RegisterPipeline(eventlogger.Pipeline{PipelineID: "bad", EventType: "fresh-3", NodeIDs: []eventlogger.NodeID{"k"}})
			b.RegisterPipeline(eventlogger.Pipeline{PipelineID: "bad", EventType: "fresh-4", NodeIDs: []eventlogger.NodeID{"", "k"}})
			b.RegisterPipeline(eventlogger.Pipeline{PipelineID: "bad", EventType: "fresh-5", NodeIDs: []eventlogger.NodeID{"x", "k"}}, eventlogger.WithPipelineRegistrationPolicy("bogus"))
			b.RemovePipeline("fresh-6", "bad")
			b.RemovePipelineAndNodes(ctx, "fresh-7", "bad")
			b.SetSuccessThreshold("fresh-8", -1)
			b.SetSuccessThresholdSinks("fresh-9", -1)
			b.IsAnyPipelineRegistered("fresh-1")
			b.SuccessThreshold("fresh-10")
			b.SuccessThresholdSinks("fresh-10")
		})
	}
	if ok {
		// the Broker must not be left locked: a probe writer and a probe reader return
		okp := underWatchdog(run, sc, "probe RegisterNode after "+sc.Op, "eventlogger.(*Broker).RegisterNode", func() {
			b.RegisterNode("probe", &plainNode{typ: eventlogger.NodeTypeFilter})
		})
		if okp {
			underWatchdog(run, sc, "probe Send after "+sc.Op, "eventlogger.(*Broker).Send", func() { b.Send(ctx, "ti", &Tok{S: "probe"}) })
		}
		if okp && gatedMode {
			// the filter itself must not be left locked either: another gateable event through it, then its removal
			if underWatchdog(run, sc, "probe Send of a gateable event after "+sc.Op, "eventlogger.(*Broker).Send", func() { b.Send(ctx, "to", &gated.Payload{ID: "probe"}) }) {
				underWatchdog(run, sc, "probe RemovePipelineAndNodes after "+sc.Op, "eventlogger.(*Broker).RemovePipelineAndNodes", func() { b.RemovePipelineAndNodes(ctx, "to", "po") })
			}
		}
		// parked writers must have got through
		wdone := make(chan struct{})
		go func() { writers.Wait(); close(wdone) }()
		select {
		case <-wdone:
		case <-time.After(c12Watchdog):
			run.Violation("deadlock:"+sc.Op+"/"+sc.Callback+"/parked-writer", "a RegisterNode that was waiting for the lock during the call never returned", map[string]any{"scenario": sc.String()})
		}
	}
	if gatedMode && !sc.Loop && sc.Pending > 0 && ok && (sc.Op == "rmpipenodes" || sc.Op == "rmnode" || (sc.Op == "send" && sc.Callback == "gated-expire")) {
		if atomic.LoadInt32(&ps.sends) == 0 {
			run.Inconclusive("the gated filter never re-entered the Broker in " + sc.String())
		} else {
			run.Add("gated_reentries", int(atomic.LoadInt32(&ps.sends)))
		}
	}
	run.Add("writers_observed_parked", int(atomic.LoadInt32(&parked)))
	run.Eval(sc.String())
	run.SetAdd("scenarios", fmt.Sprintf("%s/%s", sc.Op, sc.Callback))
	if run.NeedSample() {
		run.Sample(map[string]any{"scenario": sc.String(), "writers_parked": atomic.LoadInt32(&parked), "gated_reentries": atomic.LoadInt32(&ps.sends)})
	}
}

func TestC12(t *testing.T) {
	run := rt.Start(t, "C12")
	defer run.Finish()
	var scs []c12Scenario
	for _, w := range []bool{false, true} {
		scs = append(scs,
			c12Scenario{Op: "send", Callback: "process", Writer: w},
			c12Scenario{Op: "reopen", Callback: "reopen", Writer: w},
			c12Scenario{Op: "rmpipenodes", Callback: "close", Writer: w},
			c12Scenario{Op: "rmnode", Callback: "close", Writer: w},
			c12Scenario{Op: "send", Callback: "none", Writer: w},
			c12Scenario{Op: "reopen", Callback: "none", Writer: w},
			c12Scenario{Op: "rmnode-refused", Callback: "none", Writer: w},
			c12Scenario{Op: "failed-calls", Callback: "none", Writer: w},
			c12Scenario{Op: "reopen", Callback: "process", Writer: w},
			c12Scenario{Op: "send", Callback: "close", Writer: w},
		)
		scs = append(scs, c12Scenario{Op: "regnode-over", Callback: "close", Writer: w}, c12Scenario{Op: "getters", Callback: "none", Writer: w},
			c12Scenario{Op: "dup-ids", Callback: "none", Writer: w}, c12Scenario{Op: "dup-ids", Callback: "process", Writer: w},
			c12Scenario{Op: "reopen-fail", Callback: "none", Writer: w}, c12Scenario{Op: "reopen-fail", Callback: "reopen", Writer: w})
		for p := 0; p <= 3; p++ {
			scs = append(scs,
				c12Scenario{Op: "regnode-over", Callback: "gated-close", Writer: w, Pending: p},
				c12Scenario{Op: "rmpipenodes", Callback: "gated-close", Writer: w, Pending: p},
				c12Scenario{Op: "rmnode", Callback: "gated-close", Writer: w, Pending: p},
				c12Scenario{Op: "send", Callback: "gated-expire", Writer: w, Pending: p},
				c12Scenario{Op: "rmnode-refused", Callback: "gated-close", Writer: w, Pending: p},
			)
		}
	}
	// the same re-entry scenarios with a threshold setter, or a pipeline change on the same event type,
	// (instead of RegisterNode) as the waiting writer
	for _, sc := range append([]c12Scenario(nil), scs...) {
		if sc.Writer && sc.Callback != "none" {
			sc.WKind = "setthr"
			scs = append(scs, sc)
			sc.WKind = "pipe"
			scs = append(scs, sc)
		}
	}
	// a Broker.Reopen arriving while the re-entrant call is in flight (Reopen takes no part in the registry lock)
	for _, sc := range append([]c12Scenario(nil), scs...) {
		if sc.Writer && sc.WKind == "" && sc.Callback != "none" && sc.Callback != "reopen" && sc.Op != "reopen-fail" {
			sc.WKind = "reopen"
			scs = append(scs, sc)
		}
	}
	// a node that re-enters Send with the event type of the Send it runs in
	for _, wk := range []string{"-", "", "setthr", "pipe", "reopen"} {
		scs = append(scs, c12Scenario{Op: "send", Callback: "process", Writer: wk != "-", WKind: strings.TrimPrefix(wk, "-"), SameType: true})
	}
	scs = append(scs, c12Scenario{Op: "nil-unwrap", Callback: "none"}, c12Scenario{Op: "nil-unwrap", Callback: "none", Writer: true})
	// many Sends in flight at once, each of which sends again from its node
	scs = append(scs, c12Scenario{Op: "crowd", Callback: "process"}, c12Scenario{Op: "crowd", Callback: "process", SameType: true})
	// the node that is in the middle of a callback is registered again
	scs = append(scs, c12Scenario{Op: "send", Callback: "process", Writer: true, WKind: "regself"})
	for p := 1; p <= 3; p++ {
		scs = append(scs, c12Scenario{Op: "send", Callback: "gated-expire", Writer: true, WKind: "regself", Pending: p})
	}
	// an application's Gateable whose composite is itself a Gateable flush event for the filter's own pipeline
	for _, w := range []bool{false, true} {
		for p := 1; p <= 2; p++ {
			scs = append(scs,
				c12Scenario{Op: "send", Callback: "gated-expire", Writer: w, Pending: p, Loop: true},
				c12Scenario{Op: "rmpipenodes", Callback: "gated-close", Writer: w, Pending: p, Loop: true},
				c12Scenario{Op: "rmnode", Callback: "gated-close", Writer: w, Pending: p, Loop: true},
			)
		}
	}
	// gated flushes whose re-entrant Send reports an error (expiry during Process, Close during removal)
	for _, w := range []bool{false, true} {
		for p := 1; p <= 3; p++ {
			for f := 1; f <= p+1; f++ {
				if f == p+1 {
					f = 1 << 30 // every re-entrant send fails, however often it is retried
				}
				scs = append(scs,
					c12Scenario{Op: "send", Callback: "gated-expire", Writer: w, Pending: p, FailSend: f},
					c12Scenario{Op: "rmpipenodes", Callback: "gated-close", Writer: w, Pending: p, FailSend: f},
					c12Scenario{Op: "rmnode", Callback: "gated-close", Writer: w, Pending: p, FailSend: f},
				)
			}
		}
	}
	reps := 4
	if !run.Quick() {
		reps = 60 * rt.ScaleEnv()
	}
	k := 0
	for rep := 0; rep < reps; rep++ {
		for _, sc := range scs {
			mine := k%run.NBatch == run.Batch
			k++
			if !mine || run.Stop() {
				continue
			}
			run.Progress("C12 %s rep=%d", sc, rep)
			runC12Scenario(run, sc)
		}
	}
}
