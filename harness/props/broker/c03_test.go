package broker

import (
	"context"
	"fmt"
	"strings"
	"sync"
	"sync/atomic"
	"testing"
	"time"

	"github.com/hashicorp/eventlogger"

	"verifharness/internal/rt"
)

// gates: a blocking node waits on the gate of its (object) until the harness opens it.
type gateSet struct {
	mu    sync.Mutex
	gates map[*RecNode]chan struct{}
	open  bool // open mode: every present and future gate is open
	// sends whose events are held at EVERY node (overlap scenario): send id -> release channel
	heldSends map[string]chan struct{}
	// thresholds configured for type t0 (re-applied by the overlap scenario's setter calls)
	thr, thrSinks int
}

// holdSend makes every node park events of the given Send until release is called.
func (g *gateSet) holdSend(id string) (release func()) {
	ch := make(chan struct{})
	g.mu.Lock()
	if g.heldSends == nil {
		g.heldSends = map[string]chan struct{}{}
	}
	g.heldSends[id] = ch
	g.mu.Unlock()
	var once sync.Once
	return func() {
		once.Do(func() {
			g.mu.Lock()
			delete(g.heldSends, id)
			g.mu.Unlock()
			close(ch)
		})
	}
}

func (g *gateSet) held(prov string) chan struct{} {
	g.mu.Lock()
	defer g.mu.Unlock()
	return g.heldSends[sendOf(prov)]
}

var closedChan = func() chan struct{} { c := make(chan struct{}); close(c); return c }()

// setOpen switches open mode; entering it opens every existing gate.
func (g *gateSet) setOpen(open bool) {
	g.mu.Lock()
	g.open = open
	g.mu.Unlock()
	if open {
		g.openAll(nil)
	}
}

func (g *gateSet) gate(n *RecNode) chan struct{} {
	g.mu.Lock()
	defer g.mu.Unlock()
	if g.open {
		return closedChan
	}
	if g.gates == nil {
		g.gates = map[*RecNode]chan struct{}{}
	}
	c, ok := g.gates[n]
	if !ok {
		c = make(chan struct{})
		g.gates[n] = c
	}
	return c
}

func (g *gateSet) openAll(order *rt.Rand) {
	g.mu.Lock()
	var cs []chan struct{}
	for _, c := range g.gates {
		cs = append(cs, c)
	}
	g.gates = nil
	g.mu.Unlock()
	if order != nil {
		for _, i := range order.Perm(len(cs)) {
			close(cs[i])
			if order.Bool() {
				time.Sleep(10 * time.Microsecond)
			}
		}
		return
	}
	for _, c := range cs {
		close(c)
	}
}

const sendWatchdog = 10 * time.Second

// c03Config: <=3 pipelines x <=3 nodes (+ formatter, sink) with outcomes per node.
type c03Node struct {
	beh   Beh
	block bool
}

func buildC03World(r *rt.Rand, gs *gateSet) (*World, []string) {
	w := NewWorld(r.Fork())
	np := r.Range(1, 3)
	var desc []string
	shared := NewRecNode(w.Log, "fs", eventlogger.NodeTypeFilter, r.Uint64(), [4]int{3, 1, 1, 1})
	shared.OnProcess = func(ctx context.Context, n *RecNode, e *eventlogger.Event, ent *Entry) {
		if ch := gs.held(ent.Prov); ch != nil {
			<-ch
		}
	}
	w.B.RegisterNode("fs", shared)
	w.M.RegisterNode("fs", shared, "")
	for p := 0; p < np; p++ {
		nn := r.Range(0, 2)
		var ids []string
		d := fmt.Sprintf("p%d:", p)
		mk := func(id string, nt eventlogger.NodeType, wts [4]int) {
			n := NewRecNode(w.Log, id, nt, r.Uint64(), wts)
			blocking := r.Intn(4) == 0
			n.OnProcess = func(ctx context.Context, n *RecNode, e *eventlogger.Event, ent *Entry) {
				if ch := gs.held(ent.Prov); ch != nil {
					<-ch
				}
				if blocking {
					<-gs.gate(n)
				}
			}
			if blocking {
				d += "B"
			}
			w.B.RegisterNode(eventlogger.NodeID(id), n)
			w.M.RegisterNode(id, n, "")
			ids = append(ids, id)
			d += fmt.Sprintf("%s%v ", id, wts)
		}
		for i := 0; i < nn; i++ {
			if r.Intn(5) == 0 {
				ids = append(ids, "fs")
				d += "fs "
				continue
			}
			mk(fmt.Sprintf("f%d_%d", p, i), eventlogger.NodeTypeFilter, [4]int{r.Range(1, 4), r.Intn(2), r.Intn(2), r.Intn(2)})
		}
		mk(fmt.Sprintf("m%d", p), eventlogger.NodeTypeFormatter, [4]int{4, 1, r.Intn(2), r.Intn(2)}) // a formatter may hand back (nil, nil) like any other node
		mk(fmt.Sprintf("k%d", p), eventlogger.NodeTypeSink, [4]int{r.Intn(2), 0, 3, r.Intn(2)})
		out := w.Apply(Op{Kind: "regpipe", Type: "t0", Pid: fmt.Sprintf("p%d", p), IDs: ids}, plainStyle)
		if out.Mismatch != "" {
			panic(out.Mismatch)
		}
		desc = append(desc, d)
	}
	// success thresholds, often unmet (they decide nothing about termination, but the collector's exit
	// paths depend on them)
	if r.Intn(3) > 0 {
		thr, ts := r.Intn(np+2), r.Intn(np+2)
		w.B.SetSuccessThreshold("t0", thr)
		w.B.SetSuccessThresholdSinks("t0", ts)
		gs.thr, gs.thrSinks = thr, ts
		desc = append(desc, fmt.Sprintf("thresholds=%d/%d", thr, ts))
	}
	return w, desc
}

// sendAsync runs one Send on its own goroutine.
type asyncSend struct {
	obs  *SendObs
	done chan struct{}
}

func (w *World) sendAsync(t string, cancelAt int, yield *rt.Rand, pct int, ctxOut *context.CancelFunc) *asyncSend {
	a := &asyncSend{done: make(chan struct{})}
	sendCtr++
	o := &SendObs{SendID: fmt.Sprintf("s%d", sendCtr), Type: t, CancelAt: cancelAt}
	o.Payload = &Tok{S: o.SendID}
	for _, p := range w.M.PipesOf(t) {
		o.Expected = append(o.Expected, Simulate(p, o.SendID))
	}
	ctx, cancel := context.WithCancel(context.Background())
	tr := &Trace{cancel: cancel, yield: yield, yieldPct: pct}
	if cancelAt > 0 {
		tr.cancelAt = cancelAt
	}
	o.Trace = tr
	ctx = withTrace(ctx, tr)
	if cancelAt == -1 {
		cancel()
	}
	*ctxOut = cancel
	a.obs = o
	go func() {
		defer close(a.done)
		o.T0 = time.Now()
		o.Call = rt.Tick()
		o.Status, o.Err = w.B.Send(ctx, eventlogger.EventType(t), o.Payload)
		o.Ret = rt.Tick()
		o.T1 = time.Now()
	}()
	return a
}

func libFrames(g rt.Goroutine) string {
	for _, f := range g.Frames {
		if strings.Contains(f, "hashicorp/eventlogger") {
			return f[strings.LastIndex(f, "/")+1:]
		}
	}
	return "?"
}

// awaitSend waits for Send to return under the watchdog. If it does not, the
// verdict depends on the goroutine state: parked inside the library => witness.
func awaitSend(run *rt.Run, a *asyncSend, what string, wit func() any) bool {
	select {
	case <-a.done:
		return true
	case <-time.After(sendWatchdog):
	}
	// blocked-state witness: two dumps 200ms apart
	parked := func() (string, bool) {
		for _, g := range rt.Goroutines() {
			if g.Has("eventlogger.(*graph).process") && !g.Has("eventlogger.(*graph).process.func") {
				return g.State + "@" + libFrames(g), g.Parked()
			}
		}
		return "", false
	}
	s1, p1 := parked()
	time.Sleep(200 * time.Millisecond)
	s2, p2 := parked()
	select {
	case <-a.done:
		run.Inconclusive("Send returned only after the watchdog (" + what + ")")
		return true
	default:
	}
	if what == "cancelled-gates-closed" {
		// decided by the gate, not by a duration: the context is cancelled, the harness still holds
		// the gates closed, and nothing but Send itself keeps Send from returning.
		run.Violation("not-prompt:"+s1, "the context was cancelled while nodes were held at closed gates, and Send had not returned when the watchdog (10 s) expired", wit())
		return false
	}
	if p1 && p2 && s1 == s2 {
		run.Violation("hang:"+what+":"+s1, "Send did not return within the watchdog and its goroutine is parked inside the library ("+what+")", wit())
	} else {
		run.Inconclusive("Send did not return within the watchdog but its goroutine is not provably parked (" + what + ")")
	}
	return false
}

func TestC03(t *testing.T) {
	run := rt.Start(t, "C03")
	defer run.Finish()
	r := run.Rand()
	ncfg := run.N(480, 12000)
	for c := 0; c < ncfg; c++ {
		cr := r.Fork()
		gs := &gateSet{}
		w, desc := buildC03World(cr, gs)
		run.Progress("C03 cfg=%d %v", c, desc)
		blocking := false
		for _, d := range desc {
			if strings.Contains(d, "B") {
				blocking = true
			}
		}
		// learn the trace length with every gate open
		gs.setOpen(true)
		var cf context.CancelFunc
		pa := w.sendAsync("t0", 0, nil, 0, &cf)
		okp := awaitSend(run, pa, "never-cancelled", func() any { return desc })
		cf()
		if !okp {
			continue
		}
		N := pa.obs.Trace.Len()
		c03Overlap(run, w, gs, cr, desc)
		// cancel points: before the call, never, and every hook hit (quick: a seeded sample of 6)
		points := []int{-1, 0}
		if run.Quick() && N > 10 {
			for _, i := range cr.Perm(N)[:10] {
				points = append(points, i+1)
			}
		} else {
			for k := 1; k <= N+1; k++ {
				points = append(points, k)
			}
		}
		for _, k := range points {
			if run.Stop() {
				return
			}
			run.Progress("C03 cfg=%d %v cancelAt=%d", c, desc, k)
			rt.WaitNoGoroutine(2*time.Second, "eventlogger.(*graph).process", "eventlogger.(*graph).doProcess")
			gs.setOpen(false)
			var cancel context.CancelFunc
			a := w.sendAsync("t0", k, cr.Fork(), 30, &cancel)
			o := a.obs
			wit := func() any {
				return map[string]any{"config": desc, "cancel_at": k, "cancel_point": o.Trace.cancelledAtPoint, "trace": o.Trace.Points(), "observed": describeEntries(w.Log.ForSend(o.SendID))}
			}
			// when the context is (to be) cancelled, Send must return while the gates are still closed.
			cancelled := k != 0
			if cancelled {
				if k > 0 {
					// wait until the hook really cancelled (the k-th hit may never happen if a gate blocks progress)
					// wait until the k-th hook fired, Send returned, or the trace stopped growing
					// (nodes parked at gates: the hook cannot be reached before they open)
					lastLen, lastChange := -1, time.Now()
					for {
						o.Trace.mu.Lock()
						hit := o.Trace.cancelledAtPoint != ""
						n := len(o.Trace.points)
						o.Trace.mu.Unlock()
						if hit {
							break
						}
						if n != lastLen {
							lastLen, lastChange = n, time.Now()
						}
						stalled := time.Since(lastChange) > 4*time.Millisecond
						select {
						case <-a.done:
							stalled = true
						default:
						}
						if stalled {
							break
						}
						time.Sleep(50 * time.Microsecond)
					}
					o.Trace.mu.Lock()
					hit := o.Trace.cancelledAtPoint != ""
					o.Trace.mu.Unlock()
					if !hit {
						// the k-th hook was not reached because nodes are gated: cancel from outside instead
						cancel()
						o.Trace.mu.Lock()
						o.Trace.cancelledAtPoint = "external"
						o.Trace.mu.Unlock()
					}
				}
				if awaitSend(run, a, "cancelled-gates-closed", wit) {
					run.Add("prompt_returns_with_gates_closed", 1)
				}
				if w.Log.Running() > 0 {
					run.Add("returned_while_nodes_running", 1)
				}
				gs.openAll(cr.Fork())
			} else {
				// never cancelled: open the gates in a permuted order from another goroutine
				stop := make(chan struct{})
				go func() {
					gr := cr.Fork()
					for {
						select {
						case <-stop:
							return
						default:
							time.Sleep(time.Duration(gr.Intn(200)) * time.Microsecond)
							gs.openAll(gr)
						}
					}
				}()
				okr := awaitSend(run, a, "never-cancelled", wit)
				close(stop)
				if okr {
					// Send may return only after all pipelines finished
					for _, e := range w.Log.ForSend(o.SendID) {
						if e.Ret == 0 || e.Ret > o.Ret {
							run.Violation("history-pattern:early-return", "Send returned although the context was never cancelled and a node invocation had not returned yet", wit())
							break
						}
					}
					exp := 0
					for _, tr := range o.Expected {
						exp += len(tr.Steps)
					}
					if got := len(w.Log.ForSend(o.SendID)); got != exp {
						run.Violation("history-pattern:early-return", fmt.Sprintf("Send returned after %d node invocations, %d expected (context never cancelled)", got, exp), wit())
					}
				}
			}
			// every node invocation returns now; then no goroutine of this Send may remain
			gs.setOpen(true)
			select {
			case <-a.done:
			default:
				if !awaitSend(run, a, "after-gates-open", wit) {
					cancel()
					continue
				}
			}
			left := rt.WaitNoGoroutine(5*time.Second, "eventlogger.(*graph).process", "eventlogger.(*graph).doProcess")
			if len(left) > 0 {
				time.Sleep(200 * time.Millisecond)
				left2 := rt.WaitNoGoroutine(0, "eventlogger.(*graph).process", "eventlogger.(*graph).doProcess")
				if len(left2) > 0 && left2[0].Parked() {
					run.Violation("goroutine-leak:"+left2[0].State+"@"+libFrames(left2[0]),
						fmt.Sprintf("%d goroutine(s) started by Send remain parked after every node invocation returned", len(left2)),
						map[string]any{"case": wit(), "goroutine": left2[0].Raw})
				} else if len(left2) > 0 {
					run.Inconclusive("a goroutine of Send is still runnable at the deadline")
				}
			}
			cancel()
			sig := fmt.Sprintf("%s|%s", strings.Join(desc, ";"), o.Trace.cancelledAtPoint)
			if !blocking && k == 0 {
				sig = ""
			}
			run.Eval(sig)
			run.SetAdd("traces", o.Trace.Sig())
			if o.Trace.cancelledAtPoint != "" {
				run.SetAdd("cancel_points", o.Trace.cancelledAtPoint)
			}
			if run.NeedSample() && blocking && k > 0 {
				run.Sample(wit())
			}
		}
	}
	c03CrossDeps(run)
}

func countSendGoroutines() int {
	n := 0
	for _, g := range rt.Goroutines() {
		if g.Has("eventlogger.(*graph).process") || g.Has("eventlogger.(*graph).doProcess") {
			n++
		}
	}
	return n
}

// c03Overlap: Send B is parked inside its first node; a concurrent threshold setter and a second Send A
// (never cancelled, nothing held) must not wait for B: A returns once ITS pipelines finished and leaves
// no goroutine of its own behind, the setter returns, and a Send whose context is already cancelled
// returns promptly as well.
func c03Overlap(run *rt.Run, w *World, gs *gateSet, cr *rt.Rand, desc []string) {
	gs.setOpen(true) // ordinary gates play no role here
	defer gs.setOpen(false)
	rt.WaitNoGoroutine(2*time.Second, "eventlogger.(*graph).process", "eventlogger.(*graph).doProcess")
	var cancelB context.CancelFunc
	// reserve B's id before it starts so that its very first node parks
	sendCtr++
	bid := fmt.Sprintf("s%d", sendCtr)
	sendCtr--
	release := gs.holdSend(bid)
	defer release()
	b := w.sendAsync("t0", 0, nil, 0, &cancelB)
	defer cancelB()
	if b.obs.SendID != bid {
		run.Inconclusive("overlap: send id bookkeeping")
		return
	}
	// wait until B is parked in a node
	dl := time.Now().Add(2 * time.Second)
	for w.Log.Running() == 0 && time.Now().Before(dl) {
		select {
		case <-b.done:
			dl = time.Now()
		default:
			time.Sleep(50 * time.Microsecond)
		}
	}
	if w.Log.Running() == 0 {
		// B had nothing to run (no pipeline reached a node): nothing to overlap with
		return
	}
	wit := func() any {
		return map[string]any{"config": desc, "scenario": "overlap: Send B parked in a node; threshold setter; Send A", "B": b.obs.SendID}
	}
	base := map[string]bool{}
	for _, g := range rt.Goroutines() {
		if g.Has("eventlogger.(*graph).process") || g.Has("eventlogger.(*graph).doProcess") {
			base[g.ID] = true
		}
	}
	// a threshold setter while B is in flight
	setDone := make(chan struct{})
	go func() {
		defer close(setDone)
		w.B.SetSuccessThreshold("t0", gs.thr)
		w.B.SetSuccessThresholdSinks("t0", gs.thrSinks)
	}()
	if cr.Bool() {
		time.Sleep(time.Duration(cr.Intn(300)) * time.Microsecond)
	}
	// Send A: never cancelled, not held
	var cancelA context.CancelFunc
	a := w.sendAsync("t0", 0, cr.Fork(), 20, &cancelA)
	defer cancelA()
	if awaitSend(run, a, "overlap-other-send-in-flight", wit) {
		for _, e := range w.Log.ForSend(a.obs.SendID) {
			if e.Ret == 0 {
				run.Violation("history-pattern:early-return", "overlap: Send A returned before its own node invocations had returned", wit())
				break
			}
		}
		// A's goroutines must be gone although B's are still there: goroutines inside graph.process /
		// doProcess that did not exist before A started
		extra := func() []rt.Goroutine {
			var out []rt.Goroutine
			for _, g := range rt.Goroutines() {
				if (g.Has("eventlogger.(*graph).process") || g.Has("eventlogger.(*graph).doProcess")) && !base[g.ID] {
					out = append(out, g)
				}
			}
			return out
		}
		dl := time.Now().Add(5 * time.Second)
		left := extra()
		for len(left) > 0 && time.Now().Before(dl) {
			time.Sleep(200 * time.Microsecond)
			left = extra()
		}
		if len(left) > 0 {
			time.Sleep(300 * time.Millisecond)
			left2 := extra()
			if len(left2) > 0 && left2[0].Parked() {
				run.Violation("goroutine-leak:overlap:"+left2[0].State+"@"+libFrames(left2[0]), fmt.Sprintf("after Send A returned and all its node invocations returned, %d goroutine(s) it started remain parked inside graph.process/doProcess (they wait for another Send's nodes)", len(left2)),
					map[string]any{"case": wit(), "goroutine": left2[0].Raw})
			} else if len(left2) > 0 {
				run.Inconclusive("overlap: a goroutine of Send A is still runnable at the deadline")
			}
		}
		run.Add("overlap_sends_returned_while_other_in_flight", 1)
	}
	// a Send whose context is already cancelled returns promptly, too
	var cancelC context.CancelFunc
	c := w.sendAsync("t0", -1, nil, 0, &cancelC)
	defer cancelC()
	awaitSend(run, c, "cancelled-gates-closed", wit)
	select {
	case <-setDone:
	case <-time.After(2 * time.Second):
		// not a clause of C03 (the held node has not returned, so nothing promises the setter returns);
		// recorded for the evidence only
		run.Add("overlap_threshold_setter_waited_for_send", 1)
	}
	release()
	awaitSend(run, b, "after-gates-open", wit)
	rt.WaitNoGoroutine(5*time.Second, "eventlogger.(*graph).process", "eventlogger.(*graph).doProcess")
	run.Eval("overlap|" + strings.Join(desc, ";"))
}

// c03CrossDeps: nodes may finish in any order. Here a non-root node of every pipeline can only return once the
// first nodes of all the other pipelines have been invoked (user code that waits for something the other pipeline
// produces). The roots run one after the other and everything else in goroutines of its own, so that always
// happens; a never-cancelled Send must return after all pipelines finished.
func c03CrossDeps(run *rt.Run) {
	r := run.Rand()
	n := run.N(30, 1500)
	for i := 0; i < n && !run.Stop(); i++ {
		cr := r.Fork()
		b, _ := eventlogger.NewBroker()
		log := &Log{}
		np := cr.Range(2, 4)
		invoked := make([]chan struct{}, np)
		once := make([]sync.Once, np)
		var gaveUp int32
		for k := 0; k < np; k++ {
			invoked[k] = make(chan struct{})
		}
		depth := cr.Range(1, 2) // which node after the root waits
		for k := 0; k < np; k++ {
			k := k
			ids := []eventlogger.NodeID{}
			for j, ty := range []eventlogger.NodeType{eventlogger.NodeTypeFilter, eventlogger.NodeTypeFormatter, eventlogger.NodeTypeSink} {
				nd := NewRecNode(log, fmt.Sprintf("x%d-%d", k, j), ty, 1, fixedBeh(Pass))
				switch {
				case j == 0:
					nd.OnProcess = func(ctx context.Context, n *RecNode, e *eventlogger.Event, ent *Entry) {
						once[k].Do(func() { close(invoked[k]) })
					}
				case j == depth:
					nd.OnProcess = func(ctx context.Context, n *RecNode, e *eventlogger.Event, ent *Entry) {
						for o := 0; o < np; o++ {
							if o == k {
								continue
							}
							select {
							case <-invoked[o]:
							case <-time.After(sendWatchdog + 5*time.Second):
								atomic.StoreInt32(&gaveUp, 1) // lets the process end; the verdict was taken before
							}
						}
					}
				}
				b.RegisterNode(nd.ID, nd)
				ids = append(ids, nd.ID)
			}
			if err := b.RegisterPipeline(eventlogger.Pipeline{PipelineID: eventlogger.PipelineID(fmt.Sprintf("p%d", k)), EventType: "t", NodeIDs: ids}); err != nil {
				panic(err)
			}
		}
		run.Progress("C03 cross dependencies %d pipelines=%d waiting-node=%d", i, np, depth)
		a := &asyncSend{done: make(chan struct{}), obs: &SendObs{SendID: fmt.Sprintf("x%d", i), Type: "t"}}
		go func() {
			defer close(a.done)
			a.obs.Status, a.obs.Err = b.Send(context.Background(), "t", &Tok{S: a.obs.SendID})
		}()
		ok := awaitSend(run, a, "nodes-wait-for-other-pipelines", func() any {
			return map[string]any{"pipelines": np, "waiting_node_position": depth,
				"scenario": "the node at that position of every pipeline returns only after the first nodes of all other pipelines were invoked; context never cancelled"}
		})
		if ok && a.obs.Err == nil && len(a.obs.Status.Complete()) != np {
			run.Violation("history-pattern:early-return", fmt.Sprintf("Send returned with %d complete pipelines of %d although the context was never cancelled", len(a.obs.Status.Complete()), np), nil)
		}
		if !ok {
			<-a.done // the waiting nodes give up after the watchdog, so the process can go on
		}
		run.Eval(fmt.Sprintf("cross|%d|%d", np, depth))
	}
}
