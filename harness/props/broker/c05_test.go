package broker

import (
	"fmt"
	"testing"

	"github.com/hashicorp/eventlogger"

	"verifharness/internal/rt"
)

var c05Types = []int{int(eventlogger.NodeTypeFilter), int(eventlogger.NodeTypeFormatter), int(eventlogger.NodeTypeSink), int(eventlogger.NodeTypeFormatterFilter), 0, 9}

func TestC05(t *testing.T) {
	run := rt.Start(t, "C05")
	defer run.Finish()
	r := run.Rand()
	c05CloseWindow(run)

	// ---- oracle 1: acceptance predicate, exhaustive over node-type sequences of length 1..5 -------
	variants := []string{"ok", "missing", "emptyid", "emptypid", "emptytype", "emptylist"}
	prevs := []string{"none", "allow", "deny"}
	idx := 0
	var seq []int
	var rec func(n int)
	rec = func(n int) {
		if run.Stop() {
			return
		}
		if len(seq) == n {
			mine := idx%run.NBatch == run.Batch
			idx++
			if !mine {
				return
			}
			run.Add("acceptance_type_sequences", 1)
			for _, v := range variants {
				for _, pv := range prevs {
					w := NewWorld(rt.NewRand(3))
					var ops []Op
					apply := func(op Op) Outcome {
						ops = append(ops, op)
						return w.Apply(op, plainStyle)
					}
					if pv != "none" {
						apply(Op{Kind: "regnode", ID: "pm", NT: int(eventlogger.NodeTypeFormatter)})
						apply(Op{Kind: "regnode", ID: "pk", NT: int(eventlogger.NodeTypeSink)})
						pol := "AllowOverwrite"
						if pv == "deny" {
							pol = "DenyOverwrite"
						}
						apply(Op{Kind: "regpipe", Type: "t", Pid: "p", IDs: []string{"pm", "pk"}, Policy: pol})
					}
					ids := make([]string, len(seq))
					skip := -1
					if v == "missing" {
						skip = (idx + len(seq)) % len(seq)
					}
					for i, nt := range seq {
						ids[i] = fmt.Sprintf("n%d", i)
						if i == skip {
							continue
						}
						apply(Op{Kind: "regnode", ID: ids[i], NT: nt})
					}
					op := Op{Kind: "regpipe", Type: "t", Pid: "p", IDs: ids}
					// the call under test comes with no option, or with a (valid) policy option: what the definition
					// lacks is not made up for by how the call is decorated
					op.Policy = []string{"", "AllowOverwrite", "DenyOverwrite"}[(idx+len(v)+len(pv))%3]
					switch v {
					case "emptyid":
						op.IDs = append([]string(nil), ids...)
						op.IDs[(idx+1)%len(ids)] = ""
					case "emptypid":
						op.Pid = ""
					case "emptytype":
						op.Type = ""
					case "emptylist":
						op.IDs = nil
					}
					run.Progress("C05 predicate %v", opsString(append(ops, op)))
					out := apply(op)
					if out.Mismatch != "" {
						run.Violation("history-pattern:acceptance:"+v+":"+pv, out.Mismatch, map[string]any{"history": opsString(ops), "node_types": seq})
					}
					// IsAnyPipelineRegistered agrees with the model
					if got, want := w.B.IsAnyPipelineRegistered("t"), len(w.M.PipesOf("t")) > 0; got != want {
						run.Violation("history-pattern:is-any-registered", fmt.Sprintf("IsAnyPipelineRegistered=%v but %d pipelines are registered", got, len(w.M.PipesOf("t"))), map[string]any{"history": opsString(ops)})
					}
					run.EvalN(1, fmt.Sprintf("P|%v|%s|%s", seq, v, pv))
				}
			}
			return
		}
		for _, nt := range c05Types {
			seq = append(seq, nt)
			rec(n)
			seq = seq[:len(seq)-1]
		}
	}
	maxLen := 5
	for n := 1; n <= maxLen; n++ {
		rec(n)
	}

	// ---- oracle 2: failed calls are no-ops --------------------------------------------------
	a := Alphabet{
		Types: []string{"t0", "t1"}, Pids: []string{"p0", "p1", "p2"},
		Filters: []string{"f0", "f1"}, Fmts: []string{"m0"}, Sinks: []string{"k0"},
		Policies: []string{"", "", "AllowOverwrite", "DenyOverwrite", "Bogus"}, Malformed: 45, DupIDs: 15,
	}
	nh := run.N(40000, 400000)
	for i := 0; i < nh && !run.Stop(); i++ {
		cr := r.Fork()
		n := cr.Range(1, 6)
		shadow := NewWorld(cr.Fork())
		var h []Op
		if cr.Intn(4) > 0 {
			h = a.Prologue(cr)
			for _, op := range h {
				shadow.Apply(op, plainStyle)
			}
		}
		for j := 0; j < n; j++ {
			op := a.GenOpM(cr, shadow.M)
			op.CloseFail = false
			out := shadow.Apply(op, plainStyle)
			h = append(h, op)
			// IsAnyPipelineRegistered after every step
			for _, ty := range a.Types {
				if got, want := shadow.B.IsAnyPipelineRegistered(eventlogger.EventType(ty)), len(shadow.M.PipesOf(ty)) > 0; got != want {
					run.Violation("history-pattern:is-any-registered", fmt.Sprintf("IsAnyPipelineRegistered(%s)=%v but %d pipelines are registered", ty, got, len(shadow.M.PipesOf(ty))), map[string]any{"history": opsString(h)})
				}
			}
			if op.Kind == "regpipe" && out.ModelSet && out.RealOK != out.ModelOK {
				// the acceptance clause, in a registry state reached by a history (node ids re-registered with
				// other types, pipelines overwritten, ...): the model's predicate is the statement's
				run.Violation("history-pattern:acceptance:history", fmt.Sprintf("%s: accepted=%v (err=%v) but the definition is well-formed and permitted=%v in the registry state the history produced", op, out.RealOK, out.RealErr, out.ModelOK),
					map[string]any{"history": opsString(h)})
				break
			}
			failed := !out.RealOK && op.Kind != "rmpipe"
			if !failed {
				if out.Mismatch != "" {
					run.Inconclusive("a call's result differs from the model (C06/C07's subject): " + out.Mismatch)
					break
				}
				continue
			}
			// (a failing call is compared with "the same history without it" whether or not the model
			// agrees that it had to fail)
			mismatch := out.Mismatch
			// the failing call must be a no-op: replay with and without it and compare what can be observed
			run.Progress("C05 noop %v", opsString(h))
			with := replayOps(h, plainStyle, 11).ObserveDeep(a.Types, a.Pids, a.allIDs())
			without := replayOps(h[:len(h)-1], plainStyle, 11).ObserveDeep(a.Types, a.Pids, a.allIDs())
			same := len(with) == len(without)
			for k := 0; same && k < len(with); k++ {
				same = with[k] == without[k]
			}
			if !same {
				run.Violation("history-pattern:failed-call-not-noop:"+op.Kind, "a failing "+op.String()+" changed the observable state",
					map[string]any{"history": opsString(h), "observed_with_failing_call": with, "observed_without": without})
			}
			run.Eval(fmt.Sprintf("N|%s|%v", op.Kind, with))
			run.Add("failing_calls_checked", 1)
			if run.NeedSample() {
				run.Sample(map[string]any{"history": opsString(h), "failing_call": op.String(), "observable_state": with})
			}
			if mismatch != "" {
				run.Inconclusive("a call's result differs from the model (C06/C07's subject): " + mismatch)
				break
			}
		}
	}
}
