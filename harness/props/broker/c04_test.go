package broker

import (
	"context"
	"errors"
	"fmt"
	"runtime"
	"sort"
	"strings"
	"sync"
	"sync/atomic"
	"testing"
	"time"

	"github.com/anishathalye/porcupine"
	"github.com/hashicorp/eventlogger"

	"verifharness/internal/rt"
)

// ---- nodes used by the concurrent histories ---------------------------------------------------

type concHist struct {
	mu    sync.Mutex
	marks map[string][]*marker // sendID -> markers that saw it
	ops   []*hop
	// foreign: a marker (the first node of its pipeline) found the mark of another pipeline's marker on its event
	foreign string
}

type marker struct {
	typ, pid string
	ver      int
	h        *concHist
	slowType int // Type() yields that often: node code that is slow while a registration is being validated
}

func (m *marker) Process(ctx context.Context, e *eventlogger.Event) (*eventlogger.Event, error) {
	if t, ok := e.Payload.(*Tok); ok {
		// every pipeline works on an Event of its own: what the first node of another pipeline stored is not there
		prev, seen := e.Format("mark")
		own := fmt.Sprintf("%s|%s|v%d", m.typ, m.pid, m.ver)
		e.FormattedAs("mark", []byte(own))
		m.h.mu.Lock()
		m.h.marks[t.S] = append(m.h.marks[t.S], m)
		if seen && m.h.foreign == "" {
			m.h.foreign = fmt.Sprintf("Send %s: the first node of pipeline %s received an Event that already carries the format stored by the first node of pipeline %s", t.S, own, prev)
		}
		m.h.mu.Unlock()
	}
	return e, nil
}
func (m *marker) Reopen() error { return nil }
func (m *marker) Type() eventlogger.NodeType {
	for i := 0; i < m.slowType; i++ {
		runtime.Gosched()
	}
	return eventlogger.NodeTypeFilter
}

type plainNode struct {
	typ    eventlogger.NodeType
	obj    int
	closes int64
}

func (n *plainNode) Process(ctx context.Context, e *eventlogger.Event) (*eventlogger.Event, error) {
	if n.typ == eventlogger.NodeTypeSink {
		return nil, nil
	}
	return e, nil
}
func (n *plainNode) Reopen() error {
	if n.obj%3 == 0 {
		return errPlainReopen // several nodes of several event types fail in the same Reopen
	}
	return nil
}

var errPlainReopen = errors.New("reopen failed")

func (n *plainNode) Type() eventlogger.NodeType { return n.typ }
func (n *plainNode) Close(ctx context.Context) error {
	atomic.AddInt64(&n.closes, 1)
	return nil
}

// hop is one recorded call: call timestamp before invoking, return timestamp after the reply.
type hop struct {
	Client    int
	Kind      string // regpipe rmpipe rmpipenodes regnode rmnode setthr getthr send isany reopen
	Type, Pid string
	ID        string
	Ver       int
	Deny      bool
	IDs       []string
	Sinks     bool // threshold kind
	N         int
	Call, Ret int64
	Class     string // ok denied notfound inuse missing:<id> other false
	SendID    string
	Val       int
}

func (h *hop) String() string {
	return fmt.Sprintf("[%d-%d c%d] %s %s/%s id=%s v%d deny=%v ids=%v n=%d -> %s val=%d %s", h.Call, h.Ret, h.Client, h.Kind, h.Type, h.Pid, h.ID, h.Ver, h.Deny, h.IDs, h.N, h.Class, h.Val, h.SendID)
}

func (c *concHist) record(h *hop) {
	c.mu.Lock()
	c.ops = append(c.ops, h)
	c.mu.Unlock()
}

var sharedIDs = []string{"s0", "s1", "s2", "s3"}

func sharedType(id string) eventlogger.NodeType {
	switch id {
	case "s1":
		return eventlogger.NodeTypeFormatter
	case "s2":
		return eventlogger.NodeTypeSink
	}
	return eventlogger.NodeTypeFilter
}

type concWorld struct {
	b      *eventlogger.Broker
	h      *concHist
	ver    int64
	objs   int64
	sendN  int64
	nodes  sync.Map // obj -> *plainNode (for close-once)
	types  []string
	pids   []string
	noRmPN bool // flavour without RemovePipelineAndNodes
}

func classify(err error) string {
	switch {
	case err == nil:
		return "ok"
	case errors.Is(err, eventlogger.ErrNodeNotFound):
		return "notfound"
	case strings.Contains(err.Error(), "prevents overwriting"):
		return "denied"
	case strings.Contains(err.Error(), "still in use"):
		return "inuse"
	case strings.Contains(err.Error(), "not registered"):
		s := err.Error()
		if i := strings.Index(s, `"`); i >= 0 {
			if j := strings.Index(s[i+1:], `"`); j >= 0 {
				return "missing:" + s[i+1:i+1+j]
			}
		}
		return "other"
	}
	return "other"
}

func (w *concWorld) newShared(id string) *plainNode {
	n := &plainNode{typ: sharedType(id), obj: int(atomic.AddInt64(&w.objs, 1))}
	w.nodes.Store(n.obj, n)
	return n
}

func polOpt(node, deny bool, explicitAllow bool) []eventlogger.Option {
	p := eventlogger.AllowOverwrite
	if deny {
		p = eventlogger.DenyOverwrite
	} else if !explicitAllow {
		return nil
	}
	if node {
		return []eventlogger.Option{eventlogger.WithNodeRegistrationPolicy(p)}
	}
	return []eventlogger.Option{eventlogger.WithPipelineRegistrationPolicy(p)}
}

// step executes one random call of an actor.
func (w *concWorld) step(client int, r *rt.Rand, denyPct int) {
	ctx := context.Background()
	t := rt.Pick(r, w.types)
	pid := rt.Pick(r, w.pids)
	x := r.Intn(100)
	if churn {
		// registrations and removals (with nodes) of one pipeline id chase each other
		x = rt.Pick(r, []int{0, 0, 0, 45, 45, 45, 35, 99})
	}
	switch {
	case x < 30: // register a new version of a pipeline, rooted at its own marker
		v := int(atomic.AddInt64(&w.ver, 1))
		mk := &marker{typ: t, pid: pid, ver: v, h: w.h}
		mid := fmt.Sprintf("mk-%d", v)
		if err := w.b.RegisterNode(eventlogger.NodeID(mid), mk); err != nil {
			return
		}
		ids := []string{mid}
		if r.Bool() {
			ids = append(ids, rt.Pick(r, []string{"s0", "s3"}))
		}
		if r.Intn(6) == 0 {
			// a malformed definition (no formatter before the sink / no sink): the call fails and, like every
			// failed call, takes no effect in the model; no Send may ever be seen by its marker
			ids = append(ids, rt.Pick(r, []string{"s2", "s1"}))
			mk.slowType = r.Intn(4)
		} else {
			ids = append(ids, "s1", "s2")
			mk.slowType = r.Intn(8) / 6
		}
		deny := r.Intn(100) < denyPct
		h := &hop{Client: client, Kind: "regpipe", Type: t, Pid: pid, Ver: v, Deny: deny, IDs: ids}
		h.Call = rt.Tick()
		err := w.b.RegisterPipeline(eventlogger.Pipeline{PipelineID: eventlogger.PipelineID(pid), EventType: eventlogger.EventType(t), NodeIDs: toNodeIDs(ids)}, polOpt(false, deny, r.Bool())...)
		h.Ret = rt.Tick()
		h.Class = classify(err)
		w.h.record(h)
	case x < 42:
		h := &hop{Client: client, Kind: "rmpipe", Type: t, Pid: pid}
		h.Call = rt.Tick()
		err := w.b.RemovePipeline(eventlogger.EventType(t), eventlogger.PipelineID(pid))
		h.Ret = rt.Tick()
		h.Class = classify(err)
		w.h.record(h)
	case x < 52:
		if w.noRmPN {
			return
		}
		h := &hop{Client: client, Kind: "rmpipenodes", Type: t, Pid: pid}
		h.Call = rt.Tick()
		ok, _ := w.b.RemovePipelineAndNodes(ctx, eventlogger.EventType(t), eventlogger.PipelineID(pid))
		h.Ret = rt.Tick()
		h.Class = "false"
		if ok {
			h.Class = "ok"
		}
		w.h.record(h)
	case x < 64:
		id := rt.Pick(r, sharedIDs)
		n := w.newShared(id)
		deny := r.Intn(100) < denyPct/3
		h := &hop{Client: client, Kind: "regnode", ID: id, Ver: n.obj, Deny: deny}
		h.Call = rt.Tick()
		err := w.b.RegisterNode(eventlogger.NodeID(id), n, polOpt(true, deny, r.Bool())...)
		h.Ret = rt.Tick()
		h.Class = classify(err)
		w.h.record(h)
	case x < 70:
		id := rt.Pick(r, sharedIDs)
		h := &hop{Client: client, Kind: "rmnode", ID: id}
		h.Call = rt.Tick()
		err := w.b.RemoveNode(ctx, eventlogger.NodeID(id))
		h.Ret = rt.Tick()
		h.Class = classify(err)
		w.h.record(h)
	case x < 78:
		sinks := r.Bool()
		n := r.Range(-1, 2)
		h := &hop{Client: client, Kind: "setthr", Type: t, Sinks: sinks, N: n}
		h.Call = rt.Tick()
		var err error
		if sinks {
			err = w.b.SetSuccessThresholdSinks(eventlogger.EventType(t), n)
		} else {
			err = w.b.SetSuccessThreshold(eventlogger.EventType(t), n)
		}
		h.Ret = rt.Tick()
		h.Class = classify(err)
		w.h.record(h)
	case x < 86:
		sinks := r.Bool()
		h := &hop{Client: client, Kind: "getthr", Type: t, Sinks: sinks}
		h.Call = rt.Tick()
		if sinks {
			h.Val, _ = w.b.SuccessThresholdSinks(eventlogger.EventType(t))
		} else {
			h.Val, _ = w.b.SuccessThreshold(eventlogger.EventType(t))
		}
		h.Ret = rt.Tick()
		h.Class = "ok"
		w.h.record(h)
	case x < 92:
		h := &hop{Client: client, Kind: "isany", Type: t}
		h.Call = rt.Tick()
		if w.b.IsAnyPipelineRegistered(eventlogger.EventType(t)) {
			h.Val = 1
		}
		h.Ret = rt.Tick()
		h.Class = "ok"
		w.h.record(h)
	case x < 95:
		_ = w.b.Reopen(ctx)
	default:
		w.send(client, t)
	}
}

func (w *concWorld) send(client int, t string) {
	id := fmt.Sprintf("c%d-%d", client, atomic.AddInt64(&w.sendN, 1))
	h := &hop{Client: client, Kind: "send", Type: t, SendID: id}
	h.Call = rt.Tick()
	_, err := w.b.Send(context.Background(), eventlogger.EventType(t), &Tok{S: id})
	h.Ret = rt.Tick()
	h.Class = "ok"
	if err != nil && strings.Contains(err.Error(), "no graph") {
		h.Class = "nograph"
	}
	w.h.record(h)
}

// ---- porcupine models -------------------------------------------------------------------------------

type pstate struct {
	present bool
	ver     int
	deny    bool
}

type pin struct {
	h    *hop
	read []int // for send: versions of this key that saw the event
}

var pipeModel = porcupine.Model{
	Init: func() interface{} { return pstate{} },
	Step: func(st, in, out interface{}) (bool, interface{}) {
		s := st.(pstate)
		i := in.(pin)
		switch i.h.Kind {
		case "regpipe":
			switch i.h.Class {
			case "ok":
				return !(s.present && s.deny), pstate{true, i.h.Ver, i.h.Deny}
			case "denied":
				return s.present && s.deny, s
			default:
				return true, s
			}
		case "rmpipe":
			if i.h.Class == "ok" {
				return true, pstate{}
			}
			return true, s
		case "rmpipenodes":
			if i.h.Class == "ok" {
				return s.present, pstate{}
			}
			return !s.present, s
		case "isany":
			// IsAnyPipelineRegistered(t)=false: this pipeline id was absent at some point of the call
			if i.h.Val == 0 {
				return !s.present, s
			}
			// =true and this key was chosen as the witness: present at some point of the call
			return s.present, s
		case "send":
			switch len(i.read) {
			case 0:
				return !s.present, s
			case 1:
				return s.present && s.ver == i.read[0], s
			}
			return false, s
		}
		return true, s
	},
	DescribeOperation: func(in, out interface{}) string { i := in.(pin); return fmt.Sprintf("%s read=%v", i.h, i.read) },
}

type nstate struct {
	present bool
	obj     int
	deny    bool
}

type nin struct {
	h    *hop
	kind string // regnode rmnode maybe-remove read-present read-absent
}

var nodeModel = (&porcupine.NondeterministicModel{
	Init: func() []interface{} { return []interface{}{nstate{}} },
	Step: func(st, in, out interface{}) []interface{} {
		s := st.(nstate)
		i := in.(nin)
		one := func(ok bool, n nstate) []interface{} {
			if !ok {
				return nil
			}
			return []interface{}{n}
		}
		switch i.kind {
		case "regnode":
			switch i.h.Class {
			case "ok":
				return one(!(s.present && s.deny), nstate{true, i.h.Ver, i.h.Deny})
			case "denied":
				return one(s.present && s.deny, s)
			}
			return one(true, s)
		case "rmnode":
			switch i.h.Class {
			case "ok":
				return one(s.present, nstate{})
			case "notfound":
				return one(!s.present, s)
			case "inuse":
				return one(s.present, s)
			}
			return one(true, s)
		case "maybe-remove":
			if s.present {
				return []interface{}{s, nstate{}}
			}
			return []interface{}{s}
		case "read-present":
			return one(s.present, s)
		case "read-absent":
			return one(!s.present, s)
		}
		return one(true, s)
	},
	DescribeOperation: func(in, out interface{}) string { i := in.(nin); return i.kind + " " + i.h.String() },
}).ToModel()

var thrModelP = porcupine.Model{
	Init: func() interface{} { return 0 },
	Step: func(st, in, out interface{}) (bool, interface{}) {
		h := in.(*hop)
		switch h.Kind {
		case "setthr":
			if h.Class == "ok" {
				return h.N >= 0, h.N
			}
			return h.N < 0, st
		case "getthr":
			return st.(int) == h.Val, st
		}
		return true, st
	},
	DescribeOperation: func(in, out interface{}) string { return in.(*hop).String() },
}

func checkLin(run *rt.Run, name, key string, model porcupine.Model, ops []porcupine.Operation, wit func() any) {
	if len(ops) == 0 {
		return
	}
	res, _ := porcupine.CheckOperationsVerbose(model, ops, 20*time.Second)
	switch res {
	case porcupine.Ok:
		run.Add("porcupine_ok", 1)
	case porcupine.Illegal:
		run.Add("porcupine_illegal", 1)
		var hs []string
		for _, o := range ops {
			switch v := o.Input.(type) {
			case pin:
				hs = append(hs, fmt.Sprintf("%s read=%v", v.h, v.read))
			case nin:
				hs = append(hs, v.kind+" "+v.h.String())
			case *hop:
				hs = append(hs, v.String())
			}
		}
		sort.Strings(hs)
		if len(hs) > 300 {
			hs = hs[:300]
		}
		run.Violation("history-pattern:not-linearizable:"+name, "the recorded history of "+name+" "+key+" is not linearizable w.r.t. the sequential specification",
			map[string]any{"key": key, "sub_history": hs, "case": wit()})
	default:
		run.Add("porcupine_unknown", 1)
		run.Inconclusive("porcupine timed out on " + name + " " + key)
	}
}

// analyse checks one finished concurrent history.
func (w *concWorld) analyse(run *rt.Run, wit func() any) {
	w.h.mu.Lock()
	foreign := w.h.foreign
	w.h.mu.Unlock()
	if foreign != "" {
		run.Violation("history-pattern:shared-event", foreign, wit())
	}
	h := w.h
	h.mu.Lock()
	ops := append([]*hop(nil), h.ops...)
	marks := h.marks
	h.mu.Unlock()
	// exactly-once per (send, pipeline key)
	reads := map[string]map[string][]int{} // sendID -> type|pid -> versions
	for sid, ms := range marks {
		seen := map[string]bool{}
		for _, m := range ms {
			k := fmt.Sprintf("%s|%s|%d", m.typ, m.pid, m.ver)
			if seen[k] {
				run.Violation("history-pattern:delivered-twice", fmt.Sprintf("Send %s was delivered twice to pipeline %s/%s version %d", sid, m.typ, m.pid, m.ver), wit())
			}
			seen[k] = true
			if reads[sid] == nil {
				reads[sid] = map[string][]int{}
			}
			reads[sid][pkey(m.typ, m.pid)] = append(reads[sid][pkey(m.typ, m.pid)], m.ver)
		}
	}
	for sid, byKey := range reads {
		for k, vs := range byKey {
			if len(vs) > 1 {
				sort.Ints(vs)
				dup := false
				for i := 1; i < len(vs); i++ {
					if vs[i] != vs[i-1] {
						dup = true
					}
				}
				if dup {
					run.Violation("history-pattern:two-versions", fmt.Sprintf("Send %s was processed by more than one version %v of pipeline %s", sid, vs, k), wit())
				}
			}
		}
	}
	// a send must only reach pipelines of its own type
	sendType := map[string]string{}
	for _, o := range ops {
		if o.Kind == "send" {
			sendType[o.SendID] = o.Type
		}
	}
	for sid, ms := range marks {
		for _, m := range ms {
			if st, ok := sendType[sid]; ok && st != m.typ {
				run.Violation("history-pattern:foreign-type", fmt.Sprintf("Send %s of type %s reached pipeline %s/%s", sid, st, m.typ, m.pid), wit())
			}
		}
	}
	// partitions
	basePart := map[string][]porcupine.Operation{}
	for _, t := range w.types {
		for _, p := range w.pids {
			var po []porcupine.Operation
			for _, o := range ops {
				switch o.Kind {
				case "regpipe", "rmpipe", "rmpipenodes":
					if o.Type == t && o.Pid == p {
						po = append(po, porcupine.Operation{ClientId: o.Client, Input: pin{h: o}, Call: o.Call, Return: o.Ret})
					}
				case "isany":
					if o.Type == t && o.Val == 0 {
						po = append(po, porcupine.Operation{ClientId: o.Client, Input: pin{h: o}, Call: o.Call, Return: o.Ret})
					}
				case "send":
					if o.Type == t {
						var rd []int
						if !(o.Class == "nograph") {
							rd = reads[o.SendID][pkey(t, p)]
						}
						po = append(po, porcupine.Operation{ClientId: o.Client, Input: pin{h: o, read: rd}, Call: o.Call, Return: o.Ret})
					}
				}
			}
			checkLin(run, "pipeline-register", pkey(t, p), pipeModel, renumber(po), wit)
			basePart[pkey(t, p)] = po
		}
		// IsAnyPipelineRegistered(t)=true needs a witness: some pipeline id of t that can have been
		// present during the call (checked one call at a time, on top of the key's own history)
		for _, o := range ops {
			if o.Kind != "isany" || o.Type != t || o.Val != 1 {
				continue
			}
			found := false
			for _, p := range w.pids {
				po := append(append([]porcupine.Operation(nil), basePart[pkey(t, p)]...), porcupine.Operation{ClientId: o.Client, Input: pin{h: o}, Call: o.Call, Return: o.Ret})
				if porcupine.CheckOperationsTimeout(pipeModel, renumber(po), 10*time.Second) != porcupine.Illegal {
					found = true
					break
				}
			}
			run.Add("isany_true_checked", 1)
			if !found {
				run.Violation("history-pattern:isany-true-without-pipeline", fmt.Sprintf("IsAnyPipelineRegistered(%s) returned true although no pipeline of the type can have been registered at any point of the call [%d,%d]", t, o.Call, o.Ret), wit())
			}
		}
		for _, sinks := range []bool{false, true} {
			var po []porcupine.Operation
			for _, o := range ops {
				if (o.Kind == "setthr" || o.Kind == "getthr") && o.Type == t && o.Sinks == sinks {
					po = append(po, porcupine.Operation{ClientId: o.Client, Input: o, Call: o.Call, Return: o.Ret})
				}
			}
			checkLin(run, "threshold-register", fmt.Sprintf("%s sinks=%v", t, sinks), thrModelP, renumber(po), wit)
		}
	}
	for _, id := range sharedIDs {
		var po []porcupine.Operation
		for _, o := range ops {
			switch o.Kind {
			case "regnode", "rmnode":
				if o.ID == id {
					po = append(po, porcupine.Operation{ClientId: o.Client, Input: nin{h: o, kind: o.Kind}, Call: o.Call, Return: o.Ret})
				}
			case "rmpipenodes":
				if o.Class == "ok" {
					po = append(po, porcupine.Operation{ClientId: o.Client, Input: nin{h: o, kind: "maybe-remove"}, Call: o.Call, Return: o.Ret})
				}
			case "regpipe":
				listed := false
				for _, x := range o.IDs {
					if x == id {
						listed = true
					}
				}
				switch {
				case o.Class == "ok" && listed:
					po = append(po, porcupine.Operation{ClientId: o.Client, Input: nin{h: o, kind: "read-present"}, Call: o.Call, Return: o.Ret})
				case o.Class == "missing:"+id:
					po = append(po, porcupine.Operation{ClientId: o.Client, Input: nin{h: o, kind: "read-absent"}, Call: o.Call, Return: o.Ret})
				}
			}
		}
		checkLin(run, "node-register", id, nodeModel, renumber(po), wit)
	}
	// no node object closed twice
	w.nodes.Range(func(_, v any) bool {
		n := v.(*plainNode)
		if c := atomic.LoadInt64(&n.closes); c > 1 {
			run.Violation("history-pattern:closed-twice", fmt.Sprintf("shared node object %d was closed %d times", n.obj, c), wit())
		}
		return true
	})
}

// renumber maps client ids to small dense ints (porcupine indexes by client id).
func renumber(ops []porcupine.Operation) []porcupine.Operation {
	m := map[int]int{}
	for i := range ops {
		c, ok := m[ops[i].ClientId]
		if !ok {
			c = len(m)
			m[ops[i].ClientId] = c
		}
		ops[i].ClientId = c
	}
	return ops
}

// runConcHistory executes one concurrent history: actors + senders, phase aligned, then an epilogue.
// singleKey restricts the id space to one (type, pipeline id), so that all registrations contend.
var singleKey bool

// churn restricts the actors to RegisterPipeline / RemovePipelineAndNodes / RemovePipeline (and a few Sends).
var churn bool

func runConcHistory(run *rt.Run, cr *rt.Rand, nactors, nsenders, nops, denyPct int, noRmPN bool, overwriteOnly bool) (*concWorld, []string) {
	b, _ := eventlogger.NewBroker()
	w := &concWorld{b: b, h: &concHist{marks: map[string][]*marker{}}, types: []string{"t0", "t1"}, pids: []string{"p0", "p1", "p2"}, noRmPN: noRmPN}
	if overwriteOnly || singleKey {
		w.types, w.pids = []string{"t0"}, []string{"p0"}
	}
	for _, id := range sharedIDs {
		n := w.newShared(id)
		h := &hop{Client: 99, Kind: "regnode", ID: id, Ver: n.obj}
		h.Call = rt.Tick()
		h.Class = classify(b.RegisterNode(eventlogger.NodeID(id), n))
		h.Ret = rt.Tick()
		w.h.record(h)
	}
	if overwriteOnly {
		// the key is continuously present: register v0 before the senders start
		w.stepOverwrite(99, rt.NewRand(1))
	}
	bar := rt.NewBarrier(nactors + nsenders)
	var wg sync.WaitGroup
	var stop int32
	for a := 0; a < nactors; a++ {
		wg.Add(1)
		ar := cr.Fork()
		go func(a int) {
			defer wg.Done()
			bar.Wait()
			for i := 0; i < nops; i++ {
				if overwriteOnly {
					// only overwrites of (t0,p0): x < 30 branch
					w.stepOverwrite(a, ar)
				} else {
					w.step(a, ar, denyPct)
				}
				runtime.Gosched()
			}
		}(a)
	}
	var swg sync.WaitGroup
	for s := 0; s < nsenders; s++ {
		swg.Add(1)
		sr := cr.Fork()
		go func(s int) {
			defer swg.Done()
			bar.Wait()
			for i := 0; atomic.LoadInt32(&stop) == 0 && i < nops*4; i++ {
				w.send(100+s, rt.Pick(sr, w.types))
				if sr.Intn(4) == 0 {
					runtime.Gosched()
				}
			}
		}(s)
	}
	wg.Wait()
	atomic.StoreInt32(&stop, 1)
	swg.Wait()
	// epilogue after quiescence: as if sequential
	for _, t := range w.types {
		w.send(200, t)
		for _, sinks := range []bool{false, true} {
			h := &hop{Client: 200, Kind: "getthr", Type: t, Sinks: sinks, Class: "ok"}
			h.Call = rt.Tick()
			if sinks {
				h.Val, _ = w.b.SuccessThresholdSinks(eventlogger.EventType(t))
			} else {
				h.Val, _ = w.b.SuccessThreshold(eventlogger.EventType(t))
			}
			h.Ret = rt.Tick()
			w.h.record(h)
		}
	}
	desc := []string{fmt.Sprintf("actors=%d senders=%d ops=%d deny%%=%d noRmPN=%v overwriteOnly=%v gomaxprocs=%d", nactors, nsenders, nops, denyPct, noRmPN, overwriteOnly, runtime.GOMAXPROCS(0))}
	return w, desc
}

// stepOverwrite re-registers (t0,p0) with a new version (AllowOverwrite).
func (w *concWorld) stepOverwrite(client int, r *rt.Rand) {
	v := int(atomic.AddInt64(&w.ver, 1))
	mk := &marker{typ: "t0", pid: "p0", ver: v, h: w.h}
	mid := fmt.Sprintf("mk-%d", v)
	if err := w.b.RegisterNode(eventlogger.NodeID(mid), mk); err != nil {
		return
	}
	ids := []string{mid, "s1", "s2"}
	h := &hop{Client: client, Kind: "regpipe", Type: "t0", Pid: "p0", Ver: v, IDs: ids}
	h.Call = rt.Tick()
	err := w.b.RegisterPipeline(eventlogger.Pipeline{PipelineID: "p0", EventType: "t0", NodeIDs: toNodeIDs(ids)}, polOpt(false, false, r.Bool())...)
	h.Ret = rt.Tick()
	h.Class = classify(err)
	w.h.record(h)
}

// teardown: whatever sequential order the concurrent calls amount to, once everything is quiet and every pipeline
// has been removed no node is in use any more: RemoveNode of every node id the history registered succeeds or
// finds the node gone.
func (w *concWorld) teardown(run *rt.Run, wit func() any) {
	ctx := context.Background()
	for _, t := range w.types {
		for _, pid := range w.pids {
			w.b.RemovePipeline(eventlogger.EventType(t), eventlogger.PipelineID(pid))
		}
	}
	ids := append([]string{}, sharedIDs...)
	for v := 1; v <= int(atomic.LoadInt64(&w.ver)); v++ {
		ids = append(ids, fmt.Sprintf("mk-%d", v))
	}
	for _, id := range ids {
		err := w.b.RemoveNode(ctx, eventlogger.NodeID(id))
		if err != nil && !errors.Is(err, eventlogger.ErrNodeNotFound) && classify(err) == "inuse" {
			run.Violation("history-pattern:pinned-after-quiescence", fmt.Sprintf("after the concurrent phase every pipeline was removed, yet RemoveNode(%s) is refused: %v", id, err), wit())
			return
		}
	}
}

// leanNode is the cheapest possible node: the lean churn below wants as many Broker calls per second as the
// machine gives, so that the short windows between two critical sections of one call are met by other calls.
type leanNode struct {
	typ eventlogger.NodeType
	n   int64
}

func (l *leanNode) Process(_ context.Context, e *eventlogger.Event) (*eventlogger.Event, error) {
	atomic.AddInt64(&l.n, 1)
	if l.typ == eventlogger.NodeTypeSink {
		return nil, nil
	}
	return e, nil
}
func (l *leanNode) Reopen() error              { return nil }
func (l *leanNode) Type() eventlogger.NodeType { return l.typ }

// c04LeanChurn: G goroutines run tight, unrecorded loops of register-nodes / register-pipeline / remove on one or
// two pipeline ids; nothing is judged while they run.  After they have quiesced the state must be one some
// sequential order of the calls could have left: once every pipeline is removed no node may be pinned, a fresh
// registration is delivered to exactly once, and IsAnyPipelineRegistered agrees.
func c04LeanChurn(run *rt.Run, r *rt.Rand) {
	ctx := context.Background()
	b, err := eventlogger.NewBroker()
	if err != nil {
		run.Inconclusive("lean churn: " + err.Error())
		return
	}
	G, iters := r.Range(3, 8), r.Range(2000, 9000)
	mode, npids, sharedNodes := r.Intn(3), r.Range(1, 3), r.Intn(3) == 0
	et := eventlogger.EventType("t0")
	desc := fmt.Sprintf("lean churn: %d goroutines x %d iterations of RegisterNode,RegisterNode,RegisterPipeline,remove(mode %d) on %d pipeline ids, shared nodes=%v", G, iters, mode, npids, sharedNodes)
	var wg sync.WaitGroup
	nodeIDs := map[string]bool{}
	var calls int64
	for k := 0; k < G; k++ {
		f, s := fmt.Sprintf("lf%d", k), fmt.Sprintf("ls%d", k)
		if sharedNodes {
			f, s = fmt.Sprintf("lf%d", k%2), fmt.Sprintf("ls%d", k%2)
		}
		nodeIDs[f], nodeIDs[s] = true, true
		// with shared nodes and three pipeline ids, pipelines with different ids list the same nodes
		pid := eventlogger.PipelineID(fmt.Sprintf("lp%d", k%npids))
		kr := r.Fork()
		wg.Add(1)
		go func() {
			defer wg.Done()
			for i := 0; i < iters; i++ {
				b.RegisterNode(eventlogger.NodeID(f), &leanNode{typ: eventlogger.NodeTypeFormatter})
				b.RegisterNode(eventlogger.NodeID(s), &leanNode{typ: eventlogger.NodeTypeSink})
				b.RegisterPipeline(eventlogger.Pipeline{EventType: et, PipelineID: pid, NodeIDs: []eventlogger.NodeID{eventlogger.NodeID(f), eventlogger.NodeID(s)}})
				m := mode
				if m == 2 {
					m = kr.Intn(2)
				}
				if m == 0 {
					b.RemovePipelineAndNodes(ctx, et, pid)
				} else {
					b.RemovePipeline(et, pid)
					b.RemoveNode(ctx, eventlogger.NodeID(f))
					b.RemoveNode(ctx, eventlogger.NodeID(s))
				}
			}
			atomic.AddInt64(&calls, int64(iters)*4)
		}()
	}
	wg.Wait()
	run.Add("lean_churn_runs", 1)
	run.Add("lean_churn_calls", int(calls))
	wit := func() any { return desc }
	for p := 0; p < npids; p++ {
		b.RemovePipeline(et, eventlogger.PipelineID(fmt.Sprintf("lp%d", p)))
	}
	if b.IsAnyPipelineRegistered(et) {
		run.Violation("history-pattern:isany-true-after-quiescence", "every pipeline was removed after the churn, yet IsAnyPipelineRegistered is true", wit())
		return
	}
	for id := range nodeIDs {
		err := b.RemoveNode(ctx, eventlogger.NodeID(id))
		if err != nil && !errors.Is(err, eventlogger.ErrNodeNotFound) && classify(err) == "inuse" {
			run.Violation("history-pattern:pinned-after-quiescence", fmt.Sprintf("after the churn every pipeline was removed, yet RemoveNode(%s) is refused: %v", id, err), wit())
			return
		}
	}
	ff, fs := &leanNode{typ: eventlogger.NodeTypeFormatter}, &leanNode{typ: eventlogger.NodeTypeSink}
	if err := b.RegisterNode("lfinal-f", ff); err != nil {
		run.Violation("history-pattern:fresh-registration-refused", "after the churn RegisterNode of a fresh id fails: "+err.Error(), wit())
		return
	}
	b.RegisterNode("lfinal-s", fs)
	if err := b.RegisterPipeline(eventlogger.Pipeline{EventType: et, PipelineID: "lp0", NodeIDs: []eventlogger.NodeID{"lfinal-f", "lfinal-s"}}); err != nil {
		run.Violation("history-pattern:fresh-registration-refused", "after the churn RegisterPipeline of fresh nodes fails: "+err.Error(), wit())
		return
	}
	if !b.IsAnyPipelineRegistered(et) {
		run.Violation("history-pattern:isany-false-with-pipeline", "a pipeline was registered after the churn, yet IsAnyPipelineRegistered is false", wit())
		return
	}
	_, serr := b.Send(ctx, et, "x")
	if n := atomic.LoadInt64(&fs.n); n != 1 || atomic.LoadInt64(&ff.n) != 1 {
		run.Violation("history-pattern:delivery-after-quiescence", fmt.Sprintf("a Send after the registration returned reached the pipeline's filter %d and sink %d times (Send error: %v)", ff.n, n, serr), wit())
		return
	}
	if ok, err := b.RemovePipelineAndNodes(ctx, et, "lp0"); !ok || err != nil {
		run.Violation("history-pattern:final-removal", fmt.Sprintf("RemovePipelineAndNodes of the fresh pipeline returned %v, %v", ok, err), wit())
	}
}

// c04FirstRegistrations: many rounds, each on an event type the Broker has never seen: G goroutines behind a
// barrier register one pipeline each (own nodes, own pipeline id). Every registration that returned nil is
// registered: after the goroutines finished a Send of the type is delivered to each of those pipelines exactly
// once, and each of them can be removed.
func c04FirstRegistrations(run *rt.Run, r *rt.Rand) {
	ctx := context.Background()
	b, err := eventlogger.NewBroker()
	if err != nil {
		run.Inconclusive(err.Error())
		return
	}
	rounds, G := r.Range(60, 160), r.Range(3, 8)
	withThr := r.Bool()
	for round := 0; round < rounds; round++ {
		et := eventlogger.EventType(fmt.Sprintf("ft%d", round))
		sinks := make([]*leanNode, G)
		errs := make([]error, G)
		bar := rt.NewBarrier(G)
		var wg sync.WaitGroup
		for k := 0; k < G; k++ {
			wg.Add(1)
			go func(k int) {
				defer wg.Done()
				f, s := eventlogger.NodeID(fmt.Sprintf("ff-%d-%d", round, k)), eventlogger.NodeID(fmt.Sprintf("fs-%d-%d", round, k))
				sinks[k] = &leanNode{typ: eventlogger.NodeTypeSink}
				b.RegisterNode(f, &leanNode{typ: eventlogger.NodeTypeFormatter})
				b.RegisterNode(s, sinks[k])
				bar.Wait()
				if withThr && k == 0 {
					// the type may also become known through a threshold setter at the same moment
					b.SetSuccessThreshold(et, 0)
				}
				errs[k] = b.RegisterPipeline(eventlogger.Pipeline{EventType: et, PipelineID: eventlogger.PipelineID(fmt.Sprintf("fp%d", k)), NodeIDs: []eventlogger.NodeID{f, s}})
			}(k)
		}
		wg.Wait()
		desc := fmt.Sprintf("round %d: %d goroutines register one pipeline each for an event type the Broker has not seen before (threshold setter in the mix: %v)", round, G, withThr)
		run.Add("first_registration_rounds", 1)
		for k, e := range errs {
			if e != nil {
				run.Violation("history-pattern:first-registration-refused", fmt.Sprintf("RegisterPipeline of a well-formed pipeline with its own nodes and id failed: %v", e), desc)
				return
			}
			_ = k
		}
		b.Send(ctx, et, "x")
		for k, s := range sinks {
			if n := atomic.LoadInt64(&s.n); n != 1 {
				run.Violation("history-pattern:first-registration-lost", fmt.Sprintf("pipeline fp%d was registered (nil) before the Send started, yet its sink received the event %d times", k, n), desc)
				return
			}
		}
		for k := range sinks {
			if ok, err := b.RemovePipelineAndNodes(ctx, et, eventlogger.PipelineID(fmt.Sprintf("fp%d", k))); !ok || err != nil {
				run.Violation("history-pattern:first-registration-lost", fmt.Sprintf("RemovePipelineAndNodes of pipeline fp%d, registered a moment ago, returned %v, %v", k, ok, err), desc)
				return
			}
		}
	}
	run.Eval(fmt.Sprintf("first-registrations|%d|%v", G, withThr))
}

func TestC04(t *testing.T) {
	run := rt.Start(t, "C04")
	defer run.Finish()
	r := run.Rand()
	nh := run.N(360, 12000)
	for i := 0; i < nh && !run.Stop(); i++ {
		cr := r.Fork()
		nactors, nsenders, nops := cr.Range(2, 8), cr.Range(1, 4), cr.Range(30, 120)
		denyPct := rt.Pick(cr, []int{0, 0, 10, 25})
		noRmPN := cr.Intn(3) == 0
		run.Progress("C04 history %d actors=%d senders=%d ops=%d", i, nactors, nsenders, nops)
		w, desc := runConcHistory(run, cr, nactors, nsenders, nops, denyPct, noRmPN, false)
		wit := func() any { return desc }
		w.analyse(run, wit)
		w.teardown(run, wit)
		if i%6 == 0 {
			// every sixth history is followed by a churn history on a single pipeline id, judged by the state
			// it leaves (linearizability of such single-key histories is the business of the histories above)
			singleKey, churn = true, true
			wc, dc := runConcHistory(run, cr, cr.Range(4, 16), 1, cr.Range(100, 300), 0, false, false)
			singleKey, churn = false, false
			witc := func() any { return append(dc, "churn on one pipeline id") }
			wc.teardown(run, witc)
			run.Add("churn_histories", 1)
			run.Add("churn_calls", len(wc.h.ops))
		}
		if i%10 == 5 {
			c04LeanChurn(run, cr)
		}
		if i%10 == 8 {
			c04FirstRegistrations(run, cr)
		}
		nsend, nreg := 0, 0
		kinds := map[string]bool{}
		for _, o := range w.h.ops {
			kinds[o.Kind] = true
			if o.Kind == "send" {
				nsend++
			}
			if o.Kind == "regpipe" && o.Class == "ok" {
				nreg++
			}
		}
		for k := range kinds {
			run.SetAdd("entry_points_run_concurrently", k)
		}
		run.Add("recorded_calls", len(w.h.ops))
		run.Add("sends", nsend)
		run.Eval(fmt.Sprintf("%v|%d|%d", desc, len(w.h.ops), nreg))
		if run.NeedSample() {
			var hs []string
			for j, o := range w.h.ops {
				if j < 25 {
					hs = append(hs, o.String())
				}
			}
			run.Sample(map[string]any{"config": desc, "first_recorded_calls": hs, "total_calls": len(w.h.ops)})
		}
	}
}
