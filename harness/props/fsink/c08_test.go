package fsink

import (
	"fmt"
	"os"
	"testing"

	"verifharness/internal/rt"
)

func runSeq(cr *rt.Rand, maxOps int) *frun {
	cfg := genCfg(cr)
	dir, err := os.MkdirTemp("", "fsink")
	if err != nil {
		panic(err)
	}
	r := newRun(dir, cfg)
	ops := genOps(cr, cfg, cr.Range(3, maxOps))
	for _, op := range ops {
		r.exec(op, cr)
	}
	return r
}

func (r *frun) cleanup() {
	r.closeHeld()
	root := r.Dir
	if r.Cfg.SubDir {
		root = root[:len(root)-len("/new/dir")]
	}
	os.RemoveAll(root)
}

func TestC08(t *testing.T) {
	run := rt.Start(t, "C08")
	defer run.Finish()
	r := run.Rand()
	n := run.N(800, 12000)
	for i := 0; i < n && !run.Stop(); i++ {
		cr := r.Fork()
		fr := runSeq(cr, 30)
		run.Progress("C08 seq %d %s | %s", i, fr.Cfg, "")
		checkC08(run, fr)
		acks, rot := 0, 0
		for _, s := range fr.Steps {
			if s.Op.Kind == "write" && s.Err == nil {
				acks++
			}
		}
		hist, _, _ := fr.attribute()
		rot = len(hist)
		run.Add("acknowledged_records", acks)
		run.Add("files_created", rot)
		sig := ""
		if rot >= 2 {
			sig = fmt.Sprintf("%s|%d|%d", fr.Cfg, acks, rot)
		}
		run.Eval(sig)
		if run.NeedSample() && rot >= 3 {
			run.Sample(fr.describe())
		}
		fr.cleanup()
	}
	c08Concurrent(run)
	c08Undeletable(run)
	c08WriteFaults(run)
	c13FileFaults(run, run.Rand()) // transient faults (a write, or a sync call, that fails once): acknowledged records are there once, whole
	c13PartialWrites(run, run.Rand()) // the same runs, judged for C08: acknowledged records are there, whole and once
	c08Crash(run)
}

func TestC15(t *testing.T) {
	run := rt.Start(t, "C15")
	defer run.Finish()
	r := run.Rand()
	n := run.N(600, 15000)
	for i := 0; i < n && !run.Stop(); i++ {
		cr := r.Fork()
		fr := runSeq(cr, 30)
		run.Progress("C15 seq %d %s", i, fr.Cfg)
		checkC15(run, fr)
		sig := fmt.Sprintf("%s|%d", fr.Cfg, len(fr.Steps))
		run.Eval(sig)
		if run.NeedSample() && len(fr.Steps) > 10 {
			run.Sample(fr.describe())
		}
		fr.cleanup()
	}
	c15Concurrent(run, r)
	c15DirRemoved(run, r)
}
