package fsink

import (
	"context"
	"fmt"
	"os"
	"path/filepath"
	"sync"

	"github.com/hashicorp/eventlogger"

	"verifharness/internal/rt"
)

// c15Concurrent: the size rule under concurrent writers (C15 quantifies over C08's configurations, which
// include 1..8 concurrent writers). With only a size limit and no Reopen the rule is decidable from the files
// alone: a record may start only at an offset below MaxBytes (at or beyond it the write had to rotate first),
// and a file that was rotated away holds at least MaxBytes.
func c15Concurrent(run *rt.Run, r *rt.Rand) {
	n := run.N(40, 2000)
	ctx := context.Background()
	for i := 0; i < n && !run.Stop(); i++ {
		cr := r.Fork()
		cfg := fcfg{MaxBytes: rt.Pick(cr, []int{1, 50, 120, 300}), TSOnly: cr.Bool(), FileName: "audit.log"}
		nw, nrec := cr.Range(2, 8), cr.Range(20, 80)
		dir, _ := os.MkdirTemp("", "fs15conc")
		run.Progress("C15 concurrent %d writers=%d records=%d %s", i, nw, nrec, cfg)
		sink := &eventlogger.FileSink{Path: dir, FileName: cfg.FileName, MaxBytes: cfg.MaxBytes, TimestampOnlyOnRotate: cfg.TSOnly}
		bar := rt.NewBarrier(nw)
		var wg sync.WaitGroup
		var mu sync.Mutex
		failed := 0
		for w := 0; w < nw; w++ {
			wg.Add(1)
			wr := cr.Fork()
			go func(w int) {
				defer wg.Done()
				bar.Wait()
				for k := 0; k < nrec; k++ {
					rec := frame(fmt.Sprintf("c%dw%dn%d", i, w, k), genBody(wr, wr.Range(1, 120)))
					if _, err := sink.Process(ctx, &eventlogger.Event{Type: "t", Formatted: map[string][]byte{"json": rec}}); err != nil {
						mu.Lock()
						failed++
						mu.Unlock()
					}
				}
			}(w)
		}
		wg.Wait()
		if failed > 0 {
			run.Inconclusive(fmt.Sprintf("%d writes failed in a fault-free concurrent run (C08/C13's subject); the size rule is not judged", failed))
			os.RemoveAll(dir)
			continue
		}
		files, tear, size := readAll(dir, nil)
		snap := map[string]finfo{}
		for nme := range files {
			snap[nme] = finfo{}
		}
		active := (&frun{Cfg: cfg}).activeName(snap)
		wit := func(extra string) any {
			return map[string]any{"config": cfg.String(), "writers": nw, "records_per_writer": nrec, "file_sizes": size, "active": active, "detail": extra}
		}
		for nme, rs := range files {
			if tear[nme] != size[nme] {
				continue // torn content is C08's subject
			}
			for _, p := range rs {
				if p.Off >= cfg.MaxBytes {
					run.Violation("history-pattern:no-rotation-concurrent", fmt.Sprintf("file %s: record %s was appended at offset %d although the file already held at least MaxBytes=%d: the write had to rotate first", nme, p.ID, p.Off, cfg.MaxBytes), wit(""))
					break
				}
			}
			if nme != active && size[nme] < cfg.MaxBytes {
				run.Violation("history-pattern:rotated-early-concurrent", fmt.Sprintf("file %s was rotated away holding %d bytes, less than MaxBytes=%d (no Reopen, no MaxDuration)", nme, size[nme], cfg.MaxBytes), wit(""))
			}
		}
		if active != "" && int(sink.BytesWritten) != size[active] {
			run.Violation("history-pattern:bytes-written-concurrent", fmt.Sprintf("BytesWritten=%d but the active file %s holds %d bytes", sink.BytesWritten, active, size[active]), wit(""))
		}
		if !cfg.TSOnly {
			// timestamps strictly increase: the file the sink is writing to at the end carries the greatest one.
			// A probe written after all writers have finished shows which file that is.
			probe := fmt.Sprintf("c%dprobe", i)
			if _, err := sink.Process(ctx, &eventlogger.Event{Type: "t", Formatted: map[string][]byte{"json": frame(probe, []byte("p"))}}); err == nil {
				after, _, _ := readAll(dir, nil)
				in, maxName, maxTS := "", "", int64(-1)
				for nme, rs := range after {
					for _, p := range rs {
						if p.ID == probe {
							in = nme
						}
					}
					if ts, ok := cfg.inNamespace(nme); ok && ts > maxTS {
						maxName, maxTS = nme, ts
					}
				}
				if in != "" && in != maxName {
					run.Violation("history-pattern:timestamp-not-increasing", fmt.Sprintf("after %d concurrent writers the sink writes to %s although %s carries a greater timestamp: file timestamps do not increase with the order in which the files were started", nw, in, maxName), wit(""))
				}
			}
		}
		run.Add("concurrent_files_judged", len(files))
		run.Eval(fmt.Sprintf("conc|%d|%v|%d", cfg.MaxBytes, cfg.TSOnly, nw))
		os.RemoveAll(dir)
	}
}

// c15DirRemoved: "in a directory created on demand" also holds for a sink that is alive: when the directory has
// been removed from outside, the next creation of a file (Reopen; a due size rotation in the timestamped naming
// mode) creates it again, and the file has the configured mode and a name of the sink's rule.
func c15DirRemoved(run *rt.Run, r *rt.Rand) {
	n := run.N(60, 2500)
	ctx := context.Background()
	for i := 0; i < n && !run.Stop(); i++ {
		cr := r.Fork()
		cfg := fcfg{MaxBytes: rt.Pick(cr, []int{0, 60, 300}), TSOnly: cr.Bool(), FileName: rt.Pick(cr, []string{"audit.log", "ev.json"}),
			Mode: rt.Pick(cr, []os.FileMode{0, 0o600, 0o640})}
		base, _ := os.MkdirTemp("", "fs15dir")
		dir := filepath.Join(base, "a", "b")
		sink := &eventlogger.FileSink{Path: dir, FileName: cfg.FileName, MaxBytes: cfg.MaxBytes, TimestampOnlyOnRotate: cfg.TSOnly, Mode: cfg.Mode}
		how := "reopen"
		if cfg.MaxBytes > 0 && !cfg.TSOnly && cr.Bool() {
			how = "due-rotation"
		}
		run.Progress("C15 directory removed %d %s then %s", i, cfg, how)
		var hist []string
		write := func(id string, l int) error {
			_, err := sink.Process(ctx, &eventlogger.Event{Type: "t", Formatted: map[string][]byte{"json": frame(id, genBody(cr, l))}})
			hist = append(hist, fmt.Sprintf("write(%s,%d) -> %v", id, l, err))
			return err
		}
		wit := func(extra string) any {
			return map[string]any{"config": cfg.String(), "history": hist, "detail": extra}
		}
		ok := true
		for k := 0; k < cr.Range(1, 3); k++ {
			ok = write(fmt.Sprintf("d%dpre%d", i, k), cr.Range(8, 40)) == nil && ok
		}
		if how == "due-rotation" {
			ok = write(fmt.Sprintf("d%dfill", i), cfg.MaxBytes) == nil && ok // the active file now holds >= MaxBytes
		}
		if !ok {
			run.Inconclusive("a write failed before the directory was removed")
			os.RemoveAll(base)
			continue
		}
		os.RemoveAll(filepath.Join(base, "a"))
		hist = append(hist, "external: rm -r "+filepath.Join(base, "a"))
		if how == "reopen" {
			err := sink.Reopen()
			hist = append(hist, fmt.Sprintf("Reopen -> %v", err))
			if err != nil {
				run.Violation("history-pattern:directory-not-recreated", "Reopen after the sink's directory was removed failed instead of creating the directory on demand: "+err.Error(), wit(""))
				os.RemoveAll(base)
				continue
			}
		}
		id := fmt.Sprintf("d%dpost", i)
		if err := write(id, 20); err != nil {
			run.Violation("history-pattern:directory-not-recreated", fmt.Sprintf("the write after the directory was removed (%s) failed: %v", how, err), wit(""))
			os.RemoveAll(base)
			continue
		}
		files, _, _ := readAll(dir, nil)
		found := ""
		for nme, rs := range files {
			for _, p := range rs {
				if p.ID == id {
					found = nme
				}
			}
		}
		switch {
		case found == "":
			run.Violation("history-pattern:directory-not-recreated", fmt.Sprintf("the record acknowledged after the directory was removed (%s) is in no file of the sink's directory", how), wit(fmt.Sprint(files)))
		default:
			wantMode := cfg.Mode
			if wantMode == 0 {
				wantMode = 0o600
			}
			st, _ := os.Stat(filepath.Join(dir, found))
			if st != nil && st.Mode().Perm() != wantMode {
				run.Violation("history-pattern:mode", fmt.Sprintf("file %s created after the directory was removed has mode %o, configured %o", found, st.Mode().Perm(), wantMode), wit(""))
			}
			rot := cfg.MaxBytes > 0
			_, inNS := cfg.inNamespace(found)
			if (cfg.TSOnly || !rot) && found != cfg.FileName || (!cfg.TSOnly && rot) && !inNS {
				run.Violation("history-pattern:naming", fmt.Sprintf("file %s created after the directory was removed does not follow the naming rule", found), wit(""))
			}
		}
		run.Add("directory_removed_cases", 1)
		run.Eval(fmt.Sprintf("dir|%d|%v|%o|%s", cfg.MaxBytes, cfg.TSOnly, cfg.Mode, how))
		os.RemoveAll(base)
	}
}
