package fsink

import (
	"bytes"
	"fmt"
	"os"
	"sort"
	"time"

	"verifharness/internal/rt"
)

// inoHist is the life of one file (inode) over a run.
type inoHist struct {
	Ino       uint64
	FirstStep int
	LastStep  int      // last step at which it was present
	Names     []string // names it had, in order
	Recs      []int    // step indices of the records that went to it
	Gone      bool
	GoneAt    int
}

// attribute assigns every acknowledged record to the inode whose size grew by exactly its length in
// that step (single writer: at most one file changes per step).
func (r *frun) attribute() (map[uint64]*inoHist, []uint64, string) {
	hist := map[uint64]*inoHist{}
	var order []uint64
	prev := r.Pre
	for i, st := range r.Steps {
		// new and renamed inodes
		cur := map[uint64]finfo{}
		for _, f := range st.Snap {
			if f.Dir {
				continue
			}
			cur[f.Ino] = f
			h, ok := hist[f.Ino]
			if !ok {
				if _, pre := r.Pre[f.Name]; pre && r.Pre[f.Name].Ino == f.Ino && !(r.Cfg.PreMode != 0 && f.Name == r.Cfg.FileName) {
					continue // decoy (the empty file planted under the active file's name is the sink's to write to)
				}
				h = &inoHist{Ino: f.Ino, FirstStep: i}
				hist[f.Ino] = h
				order = append(order, f.Ino)
			}
			if h.Gone {
				return nil, nil, fmt.Sprintf("inode %d reappeared (inode reuse): cannot attribute", f.Ino)
			}
			h.LastStep = i
			if len(h.Names) == 0 || h.Names[len(h.Names)-1] != f.Name {
				h.Names = append(h.Names, f.Name)
			}
		}
		for ino, h := range hist {
			if _, ok := cur[ino]; !ok && !h.Gone {
				h.Gone, h.GoneAt = true, i
			}
		}
		if st.Op.Kind == "write" && st.Err == nil {
			// which inode grew?
			var grew []uint64
			for ino, f := range cur {
				if _, tracked := hist[ino]; !tracked {
					continue
				}
				var before int64
				for _, pf := range prev {
					if pf.Ino == ino {
						before = pf.Size
					}
				}
				if f.Size-before == int64(len(st.Rec)) {
					grew = append(grew, ino)
				} else if f.Size != before {
					return hist, order, fmt.Sprintf("step %d: file %s changed size by %d while a record of %d bytes was acknowledged", i, f.Name, f.Size-before, len(st.Rec))
				}
			}
			if len(grew) != 1 {
				return hist, order, fmt.Sprintf("step %d: an acknowledged record of %d bytes is not reflected by exactly one file growing by that amount (%d files grew)", i, len(st.Rec), len(grew))
			}
			hist[grew[0]].Recs = append(hist[grew[0]].Recs, i)
		}
		prev = st.Snap
	}
	return hist, order, ""
}

// checkC08 decides durability/order for a single-writer run.
func checkC08(run *rt.Run, r *frun) bool {
	wit := func(extra string) any { m := r.describe(); m["detail"] = extra; return m }
	hist, order, problem := r.attribute()
	if hist == nil {
		run.Inconclusive(problem)
		return true
	}
	if problem != "" {
		run.Violation("history-pattern:ack-not-on-disk", problem, wit(problem))
		return false
	}
	// a successful write that lands in a file which is NOT the newest breaks "oldest to newest = ack order"
	lastAck := -1
	ackFile := map[int]int{} // step -> position of its file in creation order
	for pos, ino := range order {
		for _, s := range hist[ino].Recs {
			ackFile[s] = pos
		}
	}
	var ackSteps []int
	for s := range ackFile {
		ackSteps = append(ackSteps, s)
	}
	sort.Ints(ackSteps)
	for _, s := range ackSteps {
		if ackFile[s] < lastAck {
			run.Violation("history-pattern:reordered", fmt.Sprintf("record of step %d was written to an older file than a record acknowledged before it", s), wit(""))
			return false
		}
		lastAck = ackFile[s]
	}
	// surviving files hold exactly their records, byte for byte, contiguous, in order
	final := r.Steps[len(r.Steps)-1].Snap
	survivors := map[uint64]bool{}
	for _, f := range final {
		survivors[f.Ino] = true
	}
	oldestSurvivor := -1
	for pos, ino := range order {
		h := hist[ino]
		if survivors[ino] && oldestSurvivor < 0 {
			oldestSurvivor = pos
		}
		name := h.Names[len(h.Names)-1]
		got, err := r.readIno(ino)
		if err != nil {
			run.Inconclusive("cannot read " + name + ": " + err.Error())
			return true
		}
		var want []byte
		for _, s := range h.Recs {
			want = append(want, r.Steps[s].Rec...)
		}
		if !bytes.Equal(got, want) {
			recs, tear := parseRecords(got)
			var ids []string
			for _, p := range recs {
				ids = append(ids, p.ID)
			}
			var wantIDs []string
			for _, s := range h.Recs {
				wantIDs = append(wantIDs, r.Steps[s].RecID)
			}
			key := "content"
			if tear != len(got) {
				key = "torn"
			}
			run.Violation("history-pattern:"+key, fmt.Sprintf("file %s holds records %v (parse stops at %d of %d bytes), acknowledged into it: %v", name, ids, tear, len(got), wantIDs), wit(""))
			return false
		}
	}
	// files that disappeared: only the retention rule may remove files, and only rotated ones of the
	// sink's own name space; without external renames what remains is a suffix of the ack sequence.
	for pos, ino := range order {
		h := hist[ino]
		if !h.Gone {
			continue
		}
		name := h.Names[len(h.Names)-1]
		_, inNS := r.Cfg.inNamespace(name)
		if r.Cfg.MaxFiles == 0 || !inNS {
			if len(h.Recs) > 0 {
				run.Violation("history-pattern:lost-file", fmt.Sprintf("file %s holding %d acknowledged records disappeared at step %d although the retention limit cannot remove it (MaxFiles=%d, in name space=%v)", name, len(h.Recs), h.GoneAt, r.Cfg.MaxFiles, inNS), wit(""))
				return false
			}
		}
		if len(h.Recs) > 0 && oldestSurvivor >= 0 {
			// a removed file must be older than every surviving file of the sink's name space
			for p2 := 0; p2 < pos; p2++ {
				h2 := hist[order[p2]]
				n2 := h2.Names[len(h2.Names)-1]
				if _, ns2 := r.Cfg.inNamespace(n2); survivors[order[p2]] && ns2 && len(h2.Recs) > 0 {
					run.Violation("history-pattern:not-a-suffix", fmt.Sprintf("file %s was removed while the older file %s survives: the remaining events are not a suffix of the acknowledged sequence", name, n2), wit(""))
					return false
				}
			}
		}
	}
	return true
}

// ---- C15: rotation model -------------------------------------------------------------------------------

func checkC15(run *rt.Run, r *frun) bool {
	wit := func(extra string) any { m := r.describe(); m["detail"] = extra; return m }
	bad := func(key, what string) bool {
		run.Violation("history-pattern:"+key, what, wit(what))
		return false
	}
	c := r.Cfg
	maxDur := time.Duration(c.MaxDurMS) * time.Millisecond
	wantMode := c.Mode
	if wantMode == 0 {
		wantMode = 0o600
	}
	rotEnabled := c.MaxBytes > 0 || c.MaxDurMS != 0
	var bytesSinceOpen int64
	open := false
	var lastCreated time.Time
	prev := r.Pre
	seenIno := map[uint64]bool{}
	for _, f := range r.Pre {
		seenIno[f.Ino] = true
	}
	var rotatedTS []int64 // timestamps of rotated files in creation order
	for i, st := range r.Steps {
		if st.Op.Kind == "unformatted" {
			// a rejected event is not a write: no file, no directory, no rotation, no counter moves
			if st.Note != "" {
				return bad("rejected-event-not-inert", fmt.Sprintf("step %d: %s", i, st.Note))
			}
			run.Add("rejected_events_inert", 1)
			continue
		}
		if k := st.Op.Kind; maxDur > 0 && (k == "write" || k == "emptywrite" || k == "reopen") && st.T1.Sub(st.T0) > maxDur {
			// the call itself outlasted MaxDuration (a loaded machine): a file it opened may have come of age before
			// the same call looked at its age, so it may have created *and* rotated it. What happened inside one call
			// cannot be attributed from the snapshots around it: the sequence is judged up to here and no further.
			run.Add("sequences_cut_at_a_call_longer_than_maxduration", 1)
			return true
		}
		// new files of this step
		var created []finfo
		for _, f := range st.Snap {
			if !f.Dir && !seenIno[f.Ino] {
				created = append(created, f)
				seenIno[f.Ino] = true
			}
		}
		prevActive := r.activeName(prev)
		var prevActiveIno uint64
		if prevActive != "" {
			prevActiveIno = prev[prevActive].Ino
		}
		curActive := r.activeName(st.Snap)
		// every created file: mode, name
		for _, f := range created {
			if f.Mode != wantMode {
				return bad("mode", fmt.Sprintf("step %d: file %s was created with mode %o, configured %o", i, f.Name, f.Mode, wantMode))
			}
			ts, ns := c.inNamespace(f.Name)
			switch {
			case c.TSOnly || !rotEnabled:
				if f.Name != c.FileName {
					return bad("naming", fmt.Sprintf("step %d: the sink created %s; the active file must have the plain configured name %s", i, f.Name, c.FileName))
				}
			default:
				if !ns || ts <= 0 {
					return bad("naming", fmt.Sprintf("step %d: the sink created %s; with rotation enabled the active file carries a timestamp", i, f.Name))
				}
			}
		}
		// a file that was there before the sink's first write and is now the sink's active file: the sink opened it, and
		// its files carry the configured mode (the library sets the mode of a file that already existed when one is
		// configured; with none configured it leaves the file as it found it)
		if k := st.Op.Kind; c.PreMode != 0 && c.Mode != 0 && st.Err == nil && (k == "write" || k == "emptywrite" || k == "reopen") && curActive == c.FileName {
			if f := st.Snap[curActive]; r.Pre[c.FileName].Ino == f.Ino && f.Mode != wantMode {
				return bad("mode-existing", fmt.Sprintf("step %d: the active file %s, which existed with mode %o before the sink opened it, has mode %o after a successful %s; configured %o", i, f.Name, c.PreMode, f.Mode, k, wantMode))
			}
		}
		// decoys and the active file are never removed; with MaxFiles=0 nothing is removed
		for name, pf := range prev {
			if cf, ok := st.Snap[name]; ok && cf.Ino == pf.Ino {
				continue
			}
			// pf is gone under that name: renamed or removed?
			renamed := false
			for _, cf := range st.Snap {
				if cf.Ino == pf.Ino {
					renamed = true
				}
			}
			if renamed {
				continue
			}
			if st.Op.Kind == "rename" {
				continue
			}
			_, ns := c.inNamespace(name)
			switch {
			case !ns:
				return bad("foreign-file-removed", fmt.Sprintf("step %d: %s, which is outside the sink's name space, was removed", i, name))
			case c.MaxFiles == 0:
				return bad("removed-without-limit", fmt.Sprintf("step %d: %s was removed although MaxFiles=0", i, name))
			case name == curActive || pf.Ino == prevActiveIno && !c.TSOnly && false:
				return bad("active-removed", fmt.Sprintf("step %d: the active file %s was removed", i, name))
			}
		}
		switch st.Op.Kind {
		case "write", "emptywrite":
			if st.Err != nil {
				// an unacknowledged write: nothing is claimed about it; the sink closed its file, the next
				// write opens again (seen with an external rename that is not followed by Reopen).
				run.Add("write_errors_not_judged", 1)
				// ... but it does open again: a second failure in a row, with nothing done to the directory from
				// outside in between, means the sink never gets to the new file the rule demands
				if i > 0 && r.Steps[i-1].Op.Kind == "write" && r.Steps[i-1].Err != nil {
					return bad("no-recovery-after-failed-rotation", fmt.Sprintf("step %d: the write fails (%v) right after a write that failed (%v), and nothing happened to the directory in between: the sink does not get to a new active file", i, st.Err, r.Steps[i-1].Err))
				}
				open = false
				prev = st.Snap
				continue
			}
			rotated := false
			if open {
				// did this write first rotate? the file active before the write is no longer the active one
				if curActive != "" && prevActive != "" {
					rotated = st.Snap[curActive].Ino != prevActiveIno
				}
				if prevActive == "" {
					// the active file had been renamed away without Reopen: the sink keeps writing to its
					// open descriptor; rotation is then visible as a newly created file.
					rotated = len(created) > 0
				}
				rotateBytes := c.MaxBytes > 0 && bytesSinceOpen >= int64(c.MaxBytes)
				lo, hi := st.T0.Sub(lastCreated), st.T1.Sub(lastCreated)
				timeMust := maxDur > 0 && lo > maxDur
				timeMay := maxDur > 0 && hi > maxDur
				switch {
				case rotateBytes || timeMust:
					if !rotated {
						return bad("no-rotation", fmt.Sprintf("step %d: the active file held %d bytes since it was opened (MaxBytes=%d) and was %v..%v old (MaxDuration=%v): the write had to rotate first but did not", i, bytesSinceOpen, c.MaxBytes, lo, hi, maxDur))
					}
				case timeMay:
					run.Add("time_uncertain_steps", 1)
					if rotated {
						bytesSinceOpen = 0
					}
				default:
					if rotated {
						return bad("spurious-rotation", fmt.Sprintf("step %d: the write rotated although the active file held %d bytes since it was opened (MaxBytes=%d) and was at most %v old (MaxDuration=%v)", i, bytesSinceOpen, c.MaxBytes, hi, maxDur))
					}
				}
				if rotated {
					run.Add("rotations", 1)
					bytesSinceOpen = 0
					// retention right after the rotation
					var rot []string
					for name := range st.Snap {
						if _, ns := c.inNamespace(name); ns && name != curActive {
							rot = append(rot, name)
						}
					}
					if c.MaxFiles > 0 && len(rot) > c.MaxFiles {
						return bad("retention", fmt.Sprintf("step %d: %d rotated files remain right after the rotation, MaxFiles=%d: %v", i, len(rot), c.MaxFiles, rot))
					}
					// retention removes no more than it must: if something was pruned, exactly MaxFiles remain
					prunedNow := 0
					for name, pf := range prev {
						if _, ns := c.inNamespace(name); !ns {
							continue
						}
						gone := true
						for _, cf := range st.Snap {
							if cf.Ino == pf.Ino {
								gone = false
							}
						}
						if gone {
							prunedNow++
						}
					}
					if c.MaxFiles > 0 && prunedNow > 0 && len(rot) < c.MaxFiles {
						return bad("retention-too-eager", fmt.Sprintf("step %d: %d rotated files were pruned but only %d remain, MaxFiles=%d: the newest MaxFiles must be kept", i, prunedNow, len(rot), c.MaxFiles))
					}
					// survivors are the newest: every removed rotated file is older than every survivor
					var minSurv int64 = 1 << 62
					for _, n := range rot {
						if ts, _ := c.inNamespace(n); ts > 0 && ts < minSurv {
							minSurv = ts
						}
					}
					for name, pf := range prev {
						if _, still := st.Snap[name]; still {
							continue
						}
						gone := true
						for _, cf := range st.Snap {
							if cf.Ino == pf.Ino {
								gone = false
							}
						}
						if ts, ns := c.inNamespace(name); gone && ns && ts > minSurv {
							return bad("retention-order", fmt.Sprintf("step %d: %s was pruned although the older %d survives", i, name, minSurv))
						}
					}
					// rotated names carry strictly increasing timestamps
					if c.TSOnly {
						for _, cf := range st.Snap {
							if cf.Ino == prevActiveIno {
								ts, ns := c.inNamespace(cf.Name)
								if !ns || ts <= 0 {
									return bad("naming", fmt.Sprintf("step %d: the rotated file is called %s, expected %s<timestamp>", i, cf.Name, c.FileName))
								}
								if n := len(rotatedTS); n > 0 && ts <= rotatedTS[n-1] {
									return bad("naming", fmt.Sprintf("step %d: rotated file timestamp %d is not greater than the previous %d", i, ts, rotatedTS[n-1]))
								}
								rotatedTS = append(rotatedTS, ts)
							}
						}
					} else if ts, _ := c.inNamespace(curActive); ts > 0 {
						if n := len(rotatedTS); n > 0 && ts <= rotatedTS[n-1] {
							return bad("naming", fmt.Sprintf("step %d: new file timestamp %d is not greater than the previous %d", i, ts, rotatedTS[n-1]))
						}
						rotatedTS = append(rotatedTS, ts)
					}
				}
			}
			if !open || rotated {
				if st.LastCreated.Before(st.T0.Add(-time.Millisecond)) || st.LastCreated.After(st.T1.Add(time.Millisecond)) {
					return bad("last-created", fmt.Sprintf("step %d: LastCreated=%v is outside the call interval [%v,%v] of the step that opened the file", i, st.LastCreated, st.T0, st.T1))
				}
				if !open {
					bytesSinceOpen = 0
					if ts, _ := c.inNamespace(curActive); ts > 0 && !c.TSOnly {
						rotatedTS = append(rotatedTS, ts)
					}
				}
				lastCreated = st.LastCreated
			} else if !st.LastCreated.Equal(lastCreated) {
				return bad("last-created", fmt.Sprintf("step %d: LastCreated changed to %v although no file was opened", i, st.LastCreated))
			}
			open = true
			bytesSinceOpen += int64(len(st.Rec))
			if st.BytesWritten != bytesSinceOpen {
				return bad("bytes-written", fmt.Sprintf("step %d: BytesWritten=%d, bytes acknowledged since the file was opened: %d", i, st.BytesWritten, bytesSinceOpen))
			}
			if !rotEnabled && len(created) > 0 && i > 0 && open && prevActive != "" {
				return bad("spurious-rotation", fmt.Sprintf("step %d: a new file %s appeared on a write although neither limit is set", i, created[0].Name))
			}
		case "reopen":
			if st.Err != nil {
				return bad("reopen-error", fmt.Sprintf("step %d: Reopen failed: %v", i, st.Err))
			}
			open = true
			bytesSinceOpen = 0
			if st.BytesWritten != 0 {
				return bad("bytes-written", fmt.Sprintf("step %d: BytesWritten=%d right after Reopen", i, st.BytesWritten))
			}
			if st.LastCreated.Before(st.T0.Add(-time.Millisecond)) || st.LastCreated.After(st.T1.Add(time.Millisecond)) {
				return bad("last-created", fmt.Sprintf("step %d: LastCreated=%v is outside the Reopen call interval", i, st.LastCreated))
			}
			lastCreated = st.LastCreated
			if ts, _ := c.inNamespace(curActive); ts > 0 && !c.TSOnly && len(created) > 0 {
				if n := len(rotatedTS); n > 0 && ts <= rotatedTS[n-1] {
					return bad("naming", fmt.Sprintf("step %d: new file timestamp %d is not greater than the previous %d", i, ts, rotatedTS[n-1]))
				}
				rotatedTS = append(rotatedTS, ts)
			}
		}
		prev = st.Snap
	}
	// the directory was created on demand
	if c.SubDir {
		fi, err := os.Stat(r.Dir)
		if err != nil || !fi.IsDir() {
			return bad("directory", "the sink did not create its directory")
		}
		if fi.Mode().Perm() != 0o700 {
			return bad("directory", fmt.Sprintf("the directory was created with mode %o, expected 700", fi.Mode().Perm()))
		}
	}
	return true
}
