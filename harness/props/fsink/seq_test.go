// Package fsink holds the monitors for the file, writer and channel sinks
// (C08 durability/order, C13 exact bytes or error, C15 rotation/naming/retention).
package fsink

import (
	"context"
	"fmt"
	"os"
	"path/filepath"
	"sort"
	"strconv"
	"strings"
	"syscall"
	"time"

	"github.com/hashicorp/eventlogger"

	"verifharness/internal/rt"
)

// ---- records ---------------------------------------------------------------------------------------

// record framing: "#<id>:<len>:" + body + "\n"; bodies may contain any byte incl. newlines and NULs,
// the length prefix makes parsing unambiguous.
func frame(id string, body []byte) []byte {
	return append(append([]byte(fmt.Sprintf("#%s:%d:", id, len(body))), body...), '\n')
}

type parsed struct {
	ID   string
	Body []byte
	Off  int
}

// parseRecords parses whole records; it returns the records and the offset of the first byte that
// is not part of a whole record (== len(b) when the file is clean).
func parseRecords(b []byte) ([]parsed, int) {
	var out []parsed
	i := 0
	for i < len(b) {
		if b[i] != '#' {
			return out, i
		}
		j := i + 1
		for j < len(b) && b[j] != ':' {
			j++
		}
		if j >= len(b) {
			return out, i
		}
		id := string(b[i+1 : j])
		k := j + 1
		for k < len(b) && b[k] != ':' {
			k++
		}
		if k >= len(b) {
			return out, i
		}
		n, err := strconv.Atoi(string(b[j+1 : k]))
		if err != nil || n < 0 || k+1+n+1 > len(b) || b[k+1+n] != '\n' {
			return out, i
		}
		out = append(out, parsed{ID: id, Body: b[k+1 : k+1+n], Off: i})
		i = k + 1 + n + 1
	}
	return out, i
}

// frameToLen returns a record whose total length is exactly total when that is possible.
func frameToLen(id string, total int, r *rt.Rand) []byte {
	for b := total - 24; b <= total; b++ {
		if b < 0 {
			continue
		}
		if len(fmt.Sprintf("#%s:%d:", id, b))+b+1 == total {
			return frame(id, genBody(r, b))
		}
	}
	return frame(id, genBody(r, 1))
}

func genBody(r *rt.Rand, n int) []byte {
	b := make([]byte, n)
	for i := range b {
		switch r.Intn(10) {
		case 0:
			b[i] = '\n'
		case 1:
			b[i] = 0
		case 2:
			b[i] = '#'
		case 3:
			b[i] = ':'
		case 4:
			// bytes that mean something to a formatter, a printf verb parser, a JSON or a shell reader - and
			// nothing to a sink, which stores what it is given byte for byte
			const odd = "%%%sdvq\\\"'{}[]$`\t\r"
			b[i] = odd[r.Intn(len(odd))]
			if r.Intn(4) == 0 {
				b[i] = byte(0x80 + r.Intn(0x80))
			}
		default:
			b[i] = byte('a' + r.Intn(26))
		}
	}
	return b
}

// ---- directory snapshots -----------------------------------------------------------------------------

type finfo struct {
	Name string
	Size int64
	Mode os.FileMode
	Ino  uint64
	Dir  bool
}

func snapshot(dir string) map[string]finfo {
	out := map[string]finfo{}
	ents, err := os.ReadDir(dir)
	if err != nil {
		return out
	}
	for _, e := range ents {
		fi, err := os.Lstat(filepath.Join(dir, e.Name()))
		if err != nil {
			continue
		}
		st, _ := fi.Sys().(*syscall.Stat_t)
		f := finfo{Name: e.Name(), Size: fi.Size(), Mode: fi.Mode().Perm(), Dir: fi.IsDir()}
		if st != nil {
			f.Ino = st.Ino
		}
		out[e.Name()] = f
	}
	return out
}

func snapString(s map[string]finfo) []string {
	var out []string
	for _, f := range s {
		out = append(out, fmt.Sprintf("%s size=%d mode=%o ino=%d", f.Name, f.Size, f.Mode, f.Ino))
	}
	sort.Strings(out)
	return out
}

// ---- sequences ------------------------------------------------------------------------------------------

type fcfg struct {
	MaxBytes int
	MaxFiles int
	MaxDurMS int
	TSOnly   bool
	Mode     os.FileMode
	FileName string
	SubDir   bool // sink directory does not exist yet
	Format   string
	// PreMode: an empty file with the plain configured name and this mode is there before the sink's first write
	// (left by an earlier run, created by an installer); 0 = none. Only where the active file has the plain name.
	PreMode os.FileMode
}

func (c fcfg) String() string {
	pre := ""
	if c.PreMode != 0 {
		pre = fmt.Sprintf(" active-file-exists-with-mode=%o", c.PreMode)
	}
	return fmt.Sprintf("MaxBytes=%d MaxFiles=%d MaxDuration=%dms TimestampOnlyOnRotate=%v Mode=%o FileName=%s newdir=%v format=%q%s", c.MaxBytes, c.MaxFiles, c.MaxDurMS, c.TSOnly, c.Mode, c.FileName, c.SubDir, c.Format, pre)
}

type fop struct {
	Kind string // write reopen rename pause
	Len  int
	// Again: a write whose bytes equal those of the write before it (two events, both acknowledged, both stored)
	Again bool
}

func (o fop) String() string {
	if o.Kind == "write" {
		return fmt.Sprintf("write(%d)", o.Len)
	}
	return o.Kind
}

func opsStr(ops []fop) string {
	var s []string
	for _, o := range ops {
		s = append(s, o.String())
	}
	return strings.Join(s, " ")
}

// fstep is everything observed about one step.
type fstep struct {
	Op           fop
	RecID        string
	Rec          []byte
	Err          error
	T0, T1       time.Time
	Snap         map[string]finfo
	BytesWritten int64
	LastCreated  time.Time
	Renamed      string // rename step: new (external) name of what was the active file
	RenamedIno   uint64
	Touched      string // touch step: the rotated file whose modification time was changed from outside
	Note         string // unformatted step: what the rejected event changed ("" = nothing)
}

type frun struct {
	Cfg   fcfg
	Dir   string
	Sink  *eventlogger.FileSink
	Steps []fstep
	Pre   map[string]finfo // snapshot before the first step (decoys)
	// held keeps every file the harness has seen open (read-only): its inode number can then not be
	// reused by a later file, so inode numbers identify files for the whole run, and the content of
	// files the sink pruned stays readable.
	held map[uint64]*os.File
}

func (r *frun) hold(s map[string]finfo) {
	if r.held == nil {
		r.held = map[uint64]*os.File{}
	}
	for _, f := range s {
		if f.Dir {
			continue
		}
		if _, ok := r.held[f.Ino]; ok {
			continue
		}
		if fd, err := os.Open(filepath.Join(r.Dir, f.Name)); err == nil {
			r.held[f.Ino] = fd
		}
	}
}

func (r *frun) closeHeld() {
	for _, fd := range r.held {
		fd.Close()
	}
	r.held = nil
}

// readIno reads the whole content of a file by its inode (works for deleted files too).
func (r *frun) readIno(ino uint64) ([]byte, error) {
	fd, ok := r.held[ino]
	if !ok {
		return nil, fmt.Errorf("inode %d not held", ino)
	}
	st, err := fd.Stat()
	if err != nil {
		return nil, err
	}
	b := make([]byte, st.Size())
	n, err := fd.ReadAt(b, 0)
	if int64(n) == st.Size() {
		err = nil
	}
	return b[:n], err
}

func (c fcfg) pattern() (prefix, ext string) {
	ext = filepath.Ext(c.FileName)
	base := strings.TrimSuffix(c.FileName, ext)
	if ext == "" {
		ext = ".log"
		base = c.FileName
	}
	return base + "-", ext
}

// inNamespace reports whether name is a rotated/timestamped file of the sink, and its timestamp.
func (c fcfg) inNamespace(name string) (int64, bool) {
	p, e := c.pattern()
	if !strings.HasPrefix(name, p) || !strings.HasSuffix(name, e) || len(name) < len(p)+len(e) {
		return 0, false
	}
	mid := name[len(p) : len(name)-len(e)]
	ts, err := strconv.ParseInt(mid, 10, 64)
	if err != nil {
		// the glob the sink uses is base-*ext: anything matching it is in its name space
		return -1, true
	}
	return ts, true
}

var decoys = []string{"other-1.log", "zaudit-1.log", "audit.txt", "audit-x"}

// nearDecoys are neighbours that start with the sink's base name and end with its extension but are
// not of the form <base>-<anything><ext>: they are outside the sink's name space, some sort before
// and some after its rotated files.
func nearDecoys(c fcfg) []string {
	p, ext := c.pattern()
	base := strings.TrimSuffix(p, "-")
	return []string{base + " (copy)" + ext, base + "+x" + ext, base + "_old" + ext, base + "2" + ext, base + "~" + ext}
}

func newRun(parent string, cfg fcfg) *frun {
	dir := parent
	if cfg.SubDir {
		dir = filepath.Join(parent, "new", "dir")
	} else {
		for _, d := range append(append([]string{}, decoys...), nearDecoys(cfg)...) {
			if d != cfg.FileName {
				os.WriteFile(filepath.Join(dir, d), []byte("decoy"), 0o644)
			}
		}
		os.Mkdir(filepath.Join(dir, "subdir-"+cfg.FileName), 0o755)
		if cfg.PreMode != 0 {
			pf := filepath.Join(dir, cfg.FileName)
			os.WriteFile(pf, nil, cfg.PreMode)
			os.Chmod(pf, cfg.PreMode)
		}
	}
	r := &frun{Cfg: cfg, Dir: dir}
	r.Sink = &eventlogger.FileSink{Path: dir, FileName: cfg.FileName, Mode: cfg.Mode, MaxBytes: cfg.MaxBytes, MaxFiles: cfg.MaxFiles,
		MaxDuration: time.Duration(cfg.MaxDurMS) * time.Millisecond, TimestampOnlyOnRotate: cfg.TSOnly, Format: cfg.Format}
	r.Pre = snapshot(dir)
	r.hold(r.Pre)
	return r
}

func (r *frun) format() string {
	if r.Cfg.Format == "" {
		return "json"
	}
	return r.Cfg.Format
}

// activeName guesses the active file from the sink's naming rule and a snapshot: the plain name, or
// the newest timestamped name.
func (r *frun) activeName(s map[string]finfo) string {
	rot := r.Cfg.MaxBytes > 0 || r.Cfg.MaxDurMS != 0
	if r.Cfg.TSOnly || !rot {
		if _, ok := s[r.Cfg.FileName]; ok {
			return r.Cfg.FileName
		}
		return ""
	}
	best, bestTS := "", int64(-1)
	for n := range s {
		if ts, ok := r.Cfg.inNamespace(n); ok && ts > bestTS {
			best, bestTS = n, ts
		}
	}
	return best
}

var recCtr int

func (r *frun) exec(op fop, rng *rt.Rand) {
	st := fstep{Op: op}
	ctx := context.Background()
	switch op.Kind {
	case "write":
		recCtr++
		st.RecID = fmt.Sprintf("r%d", recCtr)
		st.Rec = frameToLen(st.RecID, op.Len, rng)
		if op.Again {
			for i := len(r.Steps) - 1; i >= 0; i-- {
				if r.Steps[i].Op.Kind == "write" {
					st.RecID, st.Rec = r.Steps[i].RecID, append([]byte(nil), r.Steps[i].Rec...)
					break
				}
			}
		}
		ev := &eventlogger.Event{Type: "t", CreatedAt: time.Now(), Formatted: map[string][]byte{r.format(): st.Rec, "other": []byte("WRONG-FORMAT\n")}}
		st.T0 = time.Now()
		_, st.Err = r.Sink.Process(ctx, ev)
		st.T1 = time.Now()
	case "emptywrite":
		st.Rec = []byte{}
		ev := &eventlogger.Event{Type: "t", CreatedAt: time.Now(), Formatted: map[string][]byte{r.format(): {}, "other": []byte("WRONG-FORMAT\n")}}
		st.T0 = time.Now()
		_, st.Err = r.Sink.Process(ctx, ev)
		st.T1 = time.Now()
	case "unformatted":
		before := snapshot(r.Dir)
		_, dirErr := os.Stat(r.Dir)
		bw, lc := r.Sink.BytesWritten, r.Sink.LastCreated
		variants := []*eventlogger.Event{
			{Type: "t", CreatedAt: time.Now(), Formatted: map[string][]byte{"other": []byte("WRONG-FORMAT\n")}},
			{Type: "t", CreatedAt: time.Now()},
		}
		ev := variants[rng.Intn(len(variants))]
		st.T0 = time.Now()
		_, st.Err = r.Sink.Process(ctx, ev)
		st.T1 = time.Now()
		after := snapshot(r.Dir)
		_, dirErr2 := os.Stat(r.Dir)
		switch {
		case st.Err == nil:
			st.Note = "Process returned nil for an event without a value in the sink's format"
		case (dirErr == nil) != (dirErr2 == nil):
			st.Note = "the rejected event created the sink's directory"
		case fmt.Sprint(snapString(before)) != fmt.Sprint(snapString(after)):
			st.Note = fmt.Sprintf("the rejected event changed the directory: %v -> %v", snapString(before), snapString(after))
		case bw != r.Sink.BytesWritten || !lc.Equal(r.Sink.LastCreated):
			st.Note = fmt.Sprintf("the rejected event changed the counters: BytesWritten %d -> %d, LastCreated %v -> %v", bw, r.Sink.BytesWritten, lc, r.Sink.LastCreated)
		}
	case "reopen":
		st.T0 = time.Now()
		st.Err = r.Sink.Reopen()
		st.T1 = time.Now()
	case "rename":
		// external rotation: move the active file away (outside the sink's name space)
		prev := map[string]finfo{}
		if len(r.Steps) > 0 {
			prev = r.Steps[len(r.Steps)-1].Snap
		} else {
			prev = snapshot(r.Dir)
		}
		st.T0 = time.Now()
		if a := r.activeName(prev); a != "" {
			st.Renamed = fmt.Sprintf("ext-%d.renamed", len(r.Steps))
			st.RenamedIno = prev[a].Ino
			st.Err = os.Rename(filepath.Join(r.Dir, a), filepath.Join(r.Dir, st.Renamed))
		}
		st.T1 = time.Now()
	case "touch":
		// something outside the sink touches one of its rotated files (a backup tool, an editor, a restore): the
		// file's modification time no longer tells its place in the sequence, its name still does
		st.T0 = time.Now()
		cur := snapshot(r.Dir)
		act := r.activeName(cur)
		var rot []string
		for n := range cur {
			if ts, ns := r.Cfg.inNamespace(n); ns && ts > 0 && n != act {
				rot = append(rot, n)
			}
		}
		sort.Strings(rot)
		if len(rot) > 0 {
			n := rot[rng.Intn(len(rot))]
			when := time.Now().Add(time.Hour)
			if rng.Bool() {
				when = time.Date(2001, 1, 1, 0, 0, 0, 0, time.UTC)
			}
			st.Err = os.Chtimes(filepath.Join(r.Dir, n), when, when)
			st.Touched = n
		}
		st.T1 = time.Now()
	case "pause":
		st.T0 = time.Now()
		time.Sleep(time.Duration(r.Cfg.MaxDurMS+6) * time.Millisecond)
		st.T1 = time.Now()
	case "nap":
		// shorter than MaxDuration: a file that is written steadily still grows old
		st.T0 = time.Now()
		time.Sleep(time.Duration(r.Cfg.MaxDurMS/3+1) * time.Millisecond)
		st.T1 = time.Now()
	}
	st.Snap = snapshot(r.Dir)
	r.hold(st.Snap)
	st.BytesWritten = r.Sink.BytesWritten
	st.LastCreated = r.Sink.LastCreated
	r.Steps = append(r.Steps, st)
}

// genCfg draws a configuration of the quantifier's space.
func genCfg(r *rt.Rand) fcfg {
	c := fcfg{
		MaxBytes: rt.Pick(r, []int{0, 1, 50, 120, 300}),
		MaxFiles: r.Intn(4),
		MaxDurMS: rt.Pick(r, []int{0, 0, 0, 30, 30, -1, -3600000}), // a non-positive MaxDuration is no age limit
		TSOnly:   r.Bool(),
		Mode:     rt.Pick(r, []os.FileMode{0, 0, 0o600, 0o640, 0o644, 0o666, 0o660, 0o664, 0o622}),
		FileName: rt.Pick(r, []string{"audit.log", "audit.log", "audit", "ev.json", "catalog.log", "session.json", "a.b.log"}),
		SubDir:   r.Intn(6) == 0,
		Format:   rt.Pick(r, []string{"", "", "cloudevents-json"}),
	}
	if plain := c.TSOnly || !(c.MaxBytes > 0 || c.MaxDurMS != 0); plain && !c.SubDir && r.Intn(4) == 0 {
		c.PreMode = rt.Pick(r, []os.FileMode{0o666, 0o664, 0o644, 0o640, 0o600, 0o606})
	}
	return c
}

// genOps draws an operation sequence; boundary sizes around MaxBytes are generated on purpose.
func genOps(r *rt.Rand, c fcfg, n int) []fop {
	var ops []fop
	for i := 0; i < n; i++ {
		switch x := r.Intn(100); {
		case x < 6:
			// an event that has no value in the sink's format: rejected, and not a write
			ops = append(ops, fop{Kind: "unformatted"})
		case x < 10:
			// an event whose value in the sink's format is empty: a write of zero bytes is a write (it opens,
			// creates and rotates like any other)
			ops = append(ops, fop{Kind: "emptywrite"})
		case x < 72:
			l := r.Range(8, 200)
			if c.MaxBytes > 8 && r.Intn(3) == 0 {
				l = c.MaxBytes + r.Range(-1, 1)
				if r.Bool() {
					l = c.MaxBytes/2 + r.Range(0, 1)
				}
			}
			if l < 8 {
				l = 8
			}
			ops = append(ops, fop{Kind: "write", Len: l})
			if r.Intn(12) == 0 {
				// the next event has the very same bytes (a heartbeat, a payload without a sequence number)
				ops = append(ops, fop{Kind: "write", Len: l, Again: true})
			}
		case x < 80:
			ops = append(ops, fop{Kind: "reopen"})
		case x < 82:
			ops = append(ops, fop{Kind: "touch"})
		case x < 92:
			ops = append(ops, fop{Kind: "rename"})
			switch r.Intn(6) {
			case 0:
				ops = append(ops, fop{Kind: "write", Len: r.Range(8, 60)}, fop{Kind: "reopen"})
			case 1:
				// nobody tells the sink: it keeps writing (to the moved file through its descriptor) until a
				// rotation is due, which then cannot rename the active file; the writes after that one must
				// find a new active file
				for k := r.Range(2, 5); k > 0; k-- {
					l := r.Range(8, 60)
					if c.MaxBytes > 8 && r.Bool() {
						l = c.MaxBytes
					}
					ops = append(ops, fop{Kind: "write", Len: l})
				}
			default:
				ops = append(ops, fop{Kind: "reopen"})
			}
		default:
			if c.MaxDurMS > 0 && r.Intn(4) == 0 {
				// a quiet period right after Reopen: the file comes of age with nothing written to it since it
				// was (re)opened, and the next write rotates it
				ops = append(ops, fop{Kind: "write", Len: r.Range(8, 60)}, fop{Kind: "reopen"}, fop{Kind: "pause"}, fop{Kind: "write", Len: r.Range(8, 60)})
			} else if c.MaxDurMS > 0 && r.Bool() {
				// steady traffic: writes a third of MaxDuration apart, for longer than MaxDuration
				for k := 0; k < 5; k++ {
					ops = append(ops, fop{Kind: "nap"}, fop{Kind: "write", Len: r.Range(8, 40)})
				}
			} else if c.MaxDurMS > 0 {
				ops = append(ops, fop{Kind: "pause"})
			} else {
				ops = append(ops, fop{Kind: "write", Len: r.Range(8, 40)})
			}
		}
	}
	return ops
}

func (r *frun) describe() map[string]any {
	var steps []string
	for i, s := range r.Steps {
		steps = append(steps, fmt.Sprintf("%d: %s rec=%s(%dB) err=%v bytesWritten=%d files=%v", i, s.Op, s.RecID, len(s.Rec), s.Err, s.BytesWritten, snapString(s.Snap)))
	}
	return map[string]any{"config": r.Cfg.String(), "steps": steps}
}
