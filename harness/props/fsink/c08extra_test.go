package fsink

import (
	"bytes"
	"context"
	"fmt"
	"os"
	"os/exec"
	"path/filepath"
	"regexp"
	"runtime"
	"sort"
	"strconv"
	"strings"
	"sync"
	"sync/atomic"
	"syscall"
	"time"
	"unsafe"

	"github.com/hashicorp/eventlogger"

	"verifharness/internal/rt"
)

// ---- concurrent writers (in process, race detector) ------------------------------------------------

type crec struct {
	ID        string
	Writer, N int
	Rec       []byte
	Call, Ret int64
	Err       error
}

// readAll parses every regular file of dir; returns per file its records.
func readAll(dir string, skip map[string]bool) (map[string][]parsed, map[string]int, map[string]int) {
	out := map[string][]parsed{}
	tear := map[string]int{}
	size := map[string]int{}
	ents, _ := os.ReadDir(dir)
	for _, e := range ents {
		if e.IsDir() || skip[e.Name()] {
			continue
		}
		b, err := os.ReadFile(filepath.Join(dir, e.Name()))
		if err != nil {
			continue
		}
		recs, t := parseRecords(b)
		out[e.Name()] = recs
		tear[e.Name()] = t
		size[e.Name()] = len(b)
	}
	return out, tear, size
}

func c08Concurrent(run *rt.Run) {
	r := run.Rand()
	nh := run.N(40, 2500)
	for i := 0; i < nh && !run.Stop(); i++ {
		cr := r.Fork()
		cfg := genCfg(cr)
		cfg.MaxFiles = 0 // every file survives: exactly-once is decidable for all acknowledged records
		cfg.SubDir = false
		cfg.Format = ""
		nw, nrec := cr.Range(1, 8), cr.Range(20, 80)
		control := cr.Intn(3) // 0 none, 1 Reopen, 2 rename+Reopen
		dir, _ := os.MkdirTemp("", "fsconc")
		run.Progress("C08 concurrent %d writers=%d records=%d control=%d %s", i, nw, nrec, control, cfg)
		sink := &eventlogger.FileSink{Path: dir, FileName: cfg.FileName, Mode: cfg.Mode, MaxBytes: cfg.MaxBytes,
			MaxDuration: time.Duration(cfg.MaxDurMS) * time.Millisecond, TimestampOnlyOnRotate: cfg.TSOnly}
		recs := make([][]*crec, nw)
		bar := rt.NewBarrier(nw + 1)
		var wg sync.WaitGroup
		var stop int32
		ctx := context.Background()
		for w := 0; w < nw; w++ {
			wg.Add(1)
			wr := cr.Fork()
			go func(w int) {
				defer wg.Done()
				bar.Wait()
				for n := 0; n < nrec; n++ {
					c := &crec{ID: fmt.Sprintf("w%dn%d", w, n), Writer: w, N: n}
					c.Rec = frame(c.ID, genBody(wr, wr.Range(1, 200)))
					ev := &eventlogger.Event{Type: "t", Formatted: map[string][]byte{"json": c.Rec}}
					c.Call = rt.Tick()
					_, c.Err = sink.Process(ctx, ev)
					c.Ret = rt.Tick()
					recs[w] = append(recs[w], c)
					if wr.Intn(4) == 0 {
						runtime.Gosched()
					}
				}
			}(w)
		}
		var renames int32
		ctlDone := make(chan struct{})
		go func() {
			defer close(ctlDone)
			bar.Wait()
			for atomic.LoadInt32(&stop) == 0 {
				switch control {
				case 1:
					sink.Reopen()
				case 2:
					// external rename of whatever looks like the active file, then Reopen
					fr := &frun{Cfg: cfg, Dir: dir}
					if a := fr.activeName(snapshot(dir)); a != "" {
						n := atomic.AddInt32(&renames, 1)
						os.Rename(filepath.Join(dir, a), filepath.Join(dir, fmt.Sprintf("ext-%04d.renamed", n)))
					}
					sink.Reopen()
				}
				time.Sleep(time.Duration(200+cr.Intn(400)) * time.Microsecond)
			}
		}()
		wg.Wait()
		atomic.StoreInt32(&stop, 1)
		<-ctlDone
		// ---- oracle ----
		files, tear, size := readAll(dir, nil)
		wit := func(extra string) any {
			var names []string
			for n, rs := range files {
				names = append(names, fmt.Sprintf("%s: %d records, %d bytes", n, len(rs), size[n]))
			}
			sort.Strings(names)
			return map[string]any{"config": cfg.String(), "writers": nw, "records_per_writer": nrec, "control": control, "files": names, "detail": extra}
		}
		okc := true
		for n, t := range tear {
			if t != size[n] {
				run.Violation("history-pattern:torn", fmt.Sprintf("file %s does not parse into whole records beyond byte %d of %d (interleaved or torn write)", n, t, size[n]), wit(""))
				okc = false
			}
		}
		type loc struct {
			file string
			off  int
		}
		where := map[string][]loc{}
		content := map[string][]byte{}
		for n, rs := range files {
			for _, p := range rs {
				where[p.ID] = append(where[p.ID], loc{n, p.Off})
				content[p.ID] = p.Body
			}
		}
		var acked []*crec
		for _, rs := range recs {
			for _, c := range rs {
				locs := where[c.ID]
				switch {
				case c.Err == nil && len(locs) != 1:
					run.Violation("history-pattern:exactly-once", fmt.Sprintf("acknowledged record %s occurs %d times in the sink's files", c.ID, len(locs)), wit(""))
					okc = false
				case c.Err != nil && len(locs) > 1:
					run.Violation("history-pattern:exactly-once", fmt.Sprintf("record %s (Process returned an error) occurs %d times", c.ID, len(locs)), wit(""))
					okc = false
				}
				if len(locs) == 1 {
					_, body := splitFrame(c.Rec)
					if !bytes.Equal(content[c.ID], body) {
						run.Violation("history-pattern:content", fmt.Sprintf("record %s is on disk with different bytes", c.ID), wit(""))
						okc = false
					}
					if c.Err == nil {
						acked = append(acked, c)
					}
				}
			}
		}
		if okc {
			// order: real-time precedence and per-writer order must agree with (file order, offset)
			sort.Slice(acked, func(a, b int) bool { return acked[a].Call < acked[b].Call })
			edges := map[[2]string]string{}
			for x := 0; x < len(acked) && okc; x++ {
				for y := x + 1; y < len(acked); y++ {
					a, b := acked[x], acked[y]
					if !(a.Ret < b.Call) && !(a.Writer == b.Writer && a.N < b.N) {
						continue
					}
					la, lb := where[a.ID][0], where[b.ID][0]
					if la.file == lb.file {
						if la.off > lb.off {
							run.Violation("history-pattern:reordered", fmt.Sprintf("record %s was acknowledged before %s was submitted but follows it in %s", a.ID, b.ID, la.file), wit(""))
							okc = false
							break
						}
					} else {
						edges[[2]string{la.file, lb.file}] = a.ID + "<" + b.ID
					}
				}
			}
			// name-derived order among the sink's own files: rotated by timestamp, plain name last
			for e, why := range edges {
				if back, ok := edges[[2]string{e[1], e[0]}]; ok {
					run.Violation("history-pattern:reordered", fmt.Sprintf("no oldest-to-newest order of files %s and %s is consistent with the acknowledgement order (%s but %s)", e[0], e[1], why, back), wit(""))
					okc = false
					break
				}
				ta, nsa := cfg.inNamespace(e[0])
				tb, nsb := cfg.inNamespace(e[1])
				if nsa && nsb && ta > tb {
					run.Violation("history-pattern:reordered", fmt.Sprintf("%s precedes %s in acknowledgement order (%s) but has the later timestamp", e[0], e[1], why), wit(""))
					okc = false
					break
				}
				if e[0] == cfg.FileName && nsb {
					run.Violation("history-pattern:reordered", fmt.Sprintf("the active file %s holds a record acknowledged before one in the rotated file %s (%s)", e[0], e[1], why), wit(""))
					okc = false
					break
				}
			}
		}
		run.Add("concurrent_acks", len(acked))
		run.Add("concurrent_files", len(files))
		run.Eval(fmt.Sprintf("conc|%s|%d|%d|%d|%d", cfg, nw, nrec, control, len(files)))
		os.RemoveAll(dir)
	}
}

func splitFrame(rec []byte) (string, []byte) {
	ps, _ := parseRecords(rec)
	if len(ps) != 1 {
		return "", nil
	}
	return ps[0].ID, ps[0].Body
}

// ---- crash points (child under strace) -----------------------------------------------------------------

// the child regenerates bodies from ids; mirror of cmd/fswriter.Body
func childBody(id string, n int) []byte {
	b := make([]byte, n)
	h := uint64(1469598103934665603)
	for i := 0; i < len(id); i++ {
		h = (h ^ uint64(id[i])) * 1099511628211
	}
	for i := range b {
		h = h*6364136223846793005 + 1442695040888963407
		switch (h >> 33) % 9 {
		case 0:
			b[i] = '\n'
		case 1:
			b[i] = '#'
		default:
			b[i] = byte('a' + (h>>40)%26)
		}
	}
	return b
}

type crashWorkload struct {
	Writers, Records, MaxBytes, MaxFiles, MaxDurMS, ReopenEvery int
	TSOnly                                                      bool
	RecLen                                                      int // body length of the shortest record (0: the child's default, 40)
}

func (w crashWorkload) args(dir, ack string) []string {
	a := []string{"-dir", dir, "-ack", ack, "-writers", strconv.Itoa(w.Writers), "-records", strconv.Itoa(w.Records),
		"-maxbytes", strconv.Itoa(w.MaxBytes), "-maxfiles", strconv.Itoa(w.MaxFiles), "-maxdurms", strconv.Itoa(w.MaxDurMS),
		"-reopen-every", strconv.Itoa(w.ReopenEvery), fmt.Sprintf("-tsonly=%v", w.TSOnly)}
	if w.RecLen > 0 {
		a = append(a, "-reclen", strconv.Itoa(w.RecLen))
	}
	return a
}

var fileSyscalls = "write,openat,close,rename,renameat,renameat2,unlink,unlinkat,chmod,fchmodat,mkdir,mkdirat"

type ackState struct {
	called map[string]int // id -> body len
	order  []string       // ids in call order
	acked  map[string]bool
	ackOrd []string
	done   bool
}

func readAck(path string) ackState {
	a := ackState{called: map[string]int{}, acked: map[string]bool{}}
	b, _ := os.ReadFile(path)
	for _, l := range strings.Split(string(b), "\n") {
		f := strings.Fields(l)
		switch {
		case len(f) == 3 && f[0] == "C":
			n, _ := strconv.Atoi(f[2])
			a.called[f[1]] = n
			a.order = append(a.order, f[1])
		case len(f) == 2 && f[0] == "A":
			a.acked[f[1]] = true
			a.ackOrd = append(a.ackOrd, f[1])
		case len(f) == 1 && f[0] == "DONE":
			a.done = true
		}
	}
	return a
}

var straceSyscall = regexp.MustCompile(`^\d+\s+(\w+)\(`)

// traceCount returns per syscall name how many times the busiest thread issued it, and the total.
func traceCount(path string) (map[string]int, int) {
	per := map[string]map[string]int{}
	total := 0
	b, _ := os.ReadFile(path)
	for _, l := range strings.Split(string(b), "\n") {
		m := straceSyscall.FindStringSubmatch(l)
		if m == nil {
			continue
		}
		pid := strings.Fields(l)[0]
		if per[m[1]] == nil {
			per[m[1]] = map[string]int{}
		}
		per[m[1]][pid]++
		total++
	}
	out := map[string]int{}
	for sc, byPid := range per {
		for _, n := range byPid {
			if n > out[sc] {
				out[sc] = n
			}
		}
	}
	return out, total
}

// checkAfterCrash is the post-mortem oracle.
func checkAfterCrash(run *rt.Run, w crashWorkload, dir string, a ackState, what string) (int, bool) {
	files, tear, size := readAll(dir, nil)
	wit := func(extra string) any {
		var names []string
		for n, rs := range files {
			var ids []string
			for _, p := range rs {
				ids = append(ids, p.ID)
			}
			names = append(names, fmt.Sprintf("%s (%d bytes): %v", n, size[n], ids))
		}
		sort.Strings(names)
		return map[string]any{"workload": fmt.Sprintf("%+v", w), "crash": what, "files": names, "acked": a.ackOrd, "called": a.order, "detail": extra}
	}
	for n, t := range tear {
		if t != size[n] {
			run.Violation("history-pattern:torn-after-crash", fmt.Sprintf("after the kill, file %s holds a partial event: parse stops at byte %d of %d", n, t, size[n]), wit(""))
			return 0, false
		}
	}
	count := map[string]int{}
	var names []string
	for n := range files {
		names = append(names, n)
	}
	// oldest to newest: rotated by timestamp, plain name last
	cfg := fcfg{FileName: "audit.log", MaxBytes: w.MaxBytes, MaxDurMS: w.MaxDurMS, TSOnly: w.TSOnly}
	sort.Slice(names, func(i, j int) bool {
		ti, ni := cfg.inNamespace(names[i])
		tj, nj := cfg.inNamespace(names[j])
		if ni != nj {
			return ni // rotated before plain
		}
		return ti < tj
	})
	var seq []string
	for _, n := range names {
		for _, p := range files[n] {
			count[p.ID]++
			seq = append(seq, p.ID)
			l, ok := a.called[p.ID]
			if !ok {
				run.Violation("history-pattern:foreign-record", fmt.Sprintf("file %s holds record %s which was never submitted", n, p.ID), wit(""))
				return 0, false
			}
			if !bytes.Equal(p.Body, childBody(p.ID, l)) {
				run.Violation("history-pattern:content", fmt.Sprintf("record %s is on disk with different bytes", p.ID), wit(""))
				return 0, false
			}
		}
	}
	for id, c := range count {
		if c > 1 {
			run.Violation("history-pattern:duplicate-after-crash", fmt.Sprintf("record %s occurs %d times", id, c), wit(""))
			return 0, false
		}
	}
	missing := 0
	for id := range a.acked {
		if count[id] == 0 {
			missing++
			if w.MaxFiles == 0 {
				run.Violation("history-pattern:lost-after-crash", fmt.Sprintf("acknowledged record %s is missing after the kill", id), wit(""))
				return 0, false
			}
		}
	}
	// extra whole records: at most the one in flight per writer
	extra := map[string]int{}
	for id := range count {
		if !a.acked[id] {
			extra[id[:strings.Index(id, "n")]]++
		}
	}
	for wr, n := range extra {
		if n > 1 {
			run.Violation("history-pattern:extra-after-crash", fmt.Sprintf("%d unacknowledged records of writer %s are on disk; at most the one in flight may be", n, wr), wit(""))
			return 0, false
		}
	}
	if w.Writers == 1 {
		// single writer: file order == submission order, and with pruning what remains is a suffix
		var want []string
		for _, id := range a.order {
			if count[id] > 0 {
				want = append(want, id)
			}
		}
		if strings.Join(want, ",") != strings.Join(seq, ",") {
			run.Violation("history-pattern:reordered-after-crash", fmt.Sprintf("files read oldest to newest yield %v, submission order of the same records is %v", seq, want), wit(""))
			return 0, false
		}
		if missing > 0 && len(seq) > 0 {
			first := seq[0]
			seen := false
			for _, id := range a.ackOrd {
				if id == first {
					seen = true
				}
				if seen && count[id] == 0 {
					run.Violation("history-pattern:not-a-suffix-after-crash", fmt.Sprintf("acknowledged record %s is missing although the older %s survives", id, first), wit(""))
					return 0, false
				}
			}
		}
	}
	return len(seq), true
}

func c08Crash(run *rt.Run) {
	child := os.Getenv("VERIF_AUX_FSWRITER")
	if child == "" {
		run.Inconclusive("crash runs skipped: VERIF_AUX_FSWRITER not set (stand-alone go test)")
		return
	}
	if _, err := exec.LookPath("strace"); err != nil {
		run.Inconclusive("crash runs skipped: strace not found")
		return
	}
	r := run.Rand()
	workloads := []crashWorkload{
		{Writers: 1, Records: 14, MaxBytes: 120, MaxFiles: 0},
		{Writers: 1, Records: 14, MaxBytes: 100, MaxFiles: 2, TSOnly: true},
		{Writers: 4, Records: 6, MaxBytes: 150, MaxFiles: 0},
		{Writers: 1, Records: 12, MaxBytes: 90, MaxFiles: 0, TSOnly: true, ReopenEvery: 4},
		{Writers: 4, Records: 6, MaxBytes: 200, MaxFiles: 0, TSOnly: true, ReopenEvery: 3},
		{Writers: 1, Records: 10, MaxBytes: 0, MaxFiles: 0, MaxDurMS: 0, ReopenEvery: 3},
		// events at the upper end of the quantified range (1..200 bytes): an event that reaches the file in more
		// than one write can be torn by a kill between two of them
		{Writers: 1, Records: 8, MaxBytes: 300, MaxFiles: 0, RecLen: 170},
	}
	if !run.Quick() {
		workloads = append(workloads, crashWorkload{Writers: 2, Records: 6, MaxBytes: 260, MaxFiles: 0, TSOnly: true, ReopenEvery: 4, RecLen: 135})
	}
	stride := run.Pick(2, 1)
	job := 0
	for wi, w := range workloads {
		base, _ := os.MkdirTemp("", "fscrash")
		// trace run: learn how many file syscalls the sink's threads issue
		dir := filepath.Join(base, "trace")
		os.Mkdir(dir, 0o755)
		tr := filepath.Join(base, "trace.txt")
		cmd := exec.Command("strace", append([]string{"-f", "-o", tr, "-e", "trace=" + fileSyscalls, child}, w.args(dir, filepath.Join(base, "ack-trace"))...)...)
		cmd.Env = append(os.Environ(), "GOMAXPROCS=2")
		if out, err := cmd.CombinedOutput(); err != nil {
			run.Inconclusive(fmt.Sprintf("strace trace run failed: %v %s", err, out))
			os.RemoveAll(base)
			continue
		}
		a := readAck(filepath.Join(base, "ack-trace"))
		if !a.done {
			run.Inconclusive("trace run of the child did not finish")
			os.RemoveAll(base)
			continue
		}
		if n, ok := checkAfterCrash(run, w, dir, a, "no crash (trace run)"); ok {
			run.Add("records_on_disk_checked", n)
		}
		counts, total := traceCount(tr)
		run.Add("traced_file_syscalls", total)
		for _, sc := range []string{"write", "openat", "close", "rename", "unlink", "renameat", "unlinkat", "chmod", "fchmodat"} {
			max := counts[sc]
			for k := 1; k <= max+1 && !run.Stop(); k += stride {
				mine := job%run.NBatch == run.Batch
				job++
				if !mine {
					continue
				}
				kk := k
				if stride > 1 {
					kk = k + r.Intn(stride)
				}
				d := filepath.Join(base, fmt.Sprintf("%s-%d", sc, kk))
				os.Mkdir(d, 0o755)
				ackp := filepath.Join(base, fmt.Sprintf("ack-%s-%d", sc, kk))
				trp := filepath.Join(base, fmt.Sprintf("tr-%s-%d", sc, kk))
				run.Progress("C08 crash workload=%d inject=%s:when=%d", wi, sc, kk)
				c := exec.Command("strace", append([]string{"-f", "-o", trp, "-e", "trace=" + fileSyscalls,
					"-e", fmt.Sprintf("inject=%s:signal=SIGKILL:when=%d", sc, kk), child}, w.args(d, ackp)...)...)
				c.Env = append(os.Environ(), "GOMAXPROCS=2")
				c.Run()
				ca := readAck(ackp)
				what := fmt.Sprintf("SIGKILL injected before the %d-th %s syscall of a thread", kk, sc)
				if n, ok := checkAfterCrash(run, w, d, ca, what); ok {
					run.Add("records_on_disk_checked", n)
				}
				_, reached := traceCount(trp)
				killed := !ca.done
				if killed {
					run.Add("crash_runs_killed", 1)
					run.SetAdd("crash_positions", fmt.Sprintf("w%d@%d", wi, reached))
				} else {
					run.Add("crash_runs_completed_unharmed", 1)
				}
				sig := ""
				if killed {
					sig = fmt.Sprintf("crash|w%d|%s|%d", wi, sc, reached)
				}
				run.Eval(sig)
				if killed && run.NeedSample() {
					run.Sample(map[string]any{"workload": fmt.Sprintf("%+v", w), "crash": what, "syscalls_reached": reached, "acked": len(ca.acked), "called": len(ca.order)})
				}
				os.RemoveAll(d)
				os.Remove(ackp)
				os.Remove(trp)
			}
		}
		// random-instant SIGKILL from the parent (thorough tier): instants inside a syscall
		if !run.Quick() {
			for k := 0; k < 12 && !run.Stop(); k++ {
				mine := job%run.NBatch == run.Batch
				job++
				if !mine {
					continue
				}
				d := filepath.Join(base, fmt.Sprintf("rk-%d", k))
				os.Mkdir(d, 0o755)
				ackp := filepath.Join(base, fmt.Sprintf("ack-rk-%d", k))
				c := exec.Command(child, w.args(d, ackp)...)
				c.Start()
				time.Sleep(time.Duration(300+r.Intn(3000)) * time.Microsecond)
				c.Process.Kill()
				c.Wait()
				ca := readAck(ackp)
				if n, ok := checkAfterCrash(run, w, d, ca, "SIGKILL at a random instant"); ok {
					run.Add("records_on_disk_checked", n)
				}
				if !ca.done {
					run.Add("random_kills_effective", 1)
					run.Eval(fmt.Sprintf("rkill|w%d|%d|%d", wi, len(ca.acked), len(ca.order)))
				}
				os.RemoveAll(d)
				os.Remove(ackp)
			}
		}
		os.RemoveAll(base)
	}
}

// ---- retention next to a rotated file that cannot be removed (immutable inode) ---------------------------------
//
// "Only files removed by the configured retention limit may be missing, in which case what remains is a suffix of
// the acknowledged sequence": when the oldest stale file cannot be unlinked, removing the newer stale files all the
// same leaves a hole. Several stale files at one rotation are produced with Reopen (timestamped naming: every
// Reopen starts a new file and prunes nothing).

const (
	fsIocGetFlags = 0x80086601
	fsIocSetFlags = 0x40086602
	fsImmutableFl = 0x10
)

func setImmutable(path string, on bool) error {
	f, err := os.Open(path)
	if err != nil {
		return err
	}
	defer f.Close()
	var flags int64
	if _, _, e := syscall.Syscall(syscall.SYS_IOCTL, f.Fd(), fsIocGetFlags, uintptr(unsafe.Pointer(&flags))); e != 0 {
		return e
	}
	if on {
		flags |= fsImmutableFl
	} else {
		flags &^= fsImmutableFl
	}
	if _, _, e := syscall.Syscall(syscall.SYS_IOCTL, f.Fd(), fsIocSetFlags, uintptr(unsafe.Pointer(&flags))); e != 0 {
		return e
	}
	return nil
}

func c08Undeletable(run *rt.Run) {
	r := run.Rand()
	ctx := context.Background()
	n := run.N(24, 600)
	for i := 0; i < n && !run.Stop(); i++ {
		cr := r.Fork()
		dir, _ := os.MkdirTemp("", "fsimm")
		cfg := fcfg{MaxBytes: rt.Pick(cr, []int{40, 120}), MaxFiles: cr.Range(1, 2), FileName: "audit.log"}
		sink := &eventlogger.FileSink{Path: dir, FileName: cfg.FileName, MaxBytes: cfg.MaxBytes, MaxFiles: cfg.MaxFiles}
		var acked []string
		var hist []string
		write := func(l int) {
			id := fmt.Sprintf("u%dn%d", i, len(hist))
			_, err := sink.Process(ctx, &eventlogger.Event{Type: "t", Formatted: map[string][]byte{"json": frame(id, genBody(cr, l))}})
			hist = append(hist, fmt.Sprintf("write(%s,%d) -> %v", id, l, err))
			if err == nil {
				acked = append(acked, id)
			}
		}
		// several files without any pruning
		nfiles := cfg.MaxFiles + cr.Range(2, 3)
		for k := 0; k < nfiles; k++ {
			write(cr.Range(8, 30))
			if err := sink.Reopen(); err != nil {
				hist = append(hist, "Reopen -> "+err.Error())
			} else {
				hist = append(hist, "Reopen")
			}
			time.Sleep(time.Millisecond)
		}
		// the oldest file becomes undeletable
		files, _, _ := readAll(dir, nil)
		oldest, oldestTS := "", int64(-1)
		for nme := range files {
			if ts, ok := cfg.inNamespace(nme); ok && ts > 0 && (oldestTS < 0 || ts < oldestTS) {
				oldest, oldestTS = nme, ts
			}
		}
		if oldest == "" {
			run.Inconclusive("no rotated file found for the immutable-file scenario")
			os.RemoveAll(dir)
			continue
		}
		if err := setImmutable(filepath.Join(dir, oldest), true); err != nil {
			run.Add("immutable_flag_unsupported", 1)
			os.RemoveAll(dir)
			continue
		}
		hist = append(hist, "external: chattr +i "+oldest)
		defer setImmutable(filepath.Join(dir, oldest), false)
		// rotations with pruning
		for k := 0; k < cr.Range(2, 4); k++ {
			write(cfg.MaxBytes)
			write(cr.Range(8, 30))
		}
		files, _, _ = readAll(dir, nil)
		setImmutable(filepath.Join(dir, oldest), false)
		present := map[string]bool{}
		for _, rs := range files {
			for _, p := range rs {
				present[p.ID] = true
			}
		}
		first := -1
		for k, id := range acked {
			if present[id] {
				first = k
				break
			}
		}
		var names []string
		for nme := range files {
			names = append(names, nme)
		}
		sort.Strings(names)
		for k := first; first >= 0 && k < len(acked); k++ {
			if !present[acked[k]] {
				run.Violation("history-pattern:not-a-suffix", fmt.Sprintf("acknowledged record %s is missing although the older record %s is still there: what remains after retention next to an undeletable file is not a suffix of the acknowledged sequence", acked[k], acked[first]),
					map[string]any{"config": cfg.String(), "history": hist, "undeletable": oldest, "files": names, "acked": acked})
				break
			}
		}
		run.Add("undeletable_file_runs", 1)
		run.Eval(fmt.Sprintf("immutable|%d|%d|%d", cfg.MaxBytes, cfg.MaxFiles, nfiles))
		os.RemoveAll(dir)
	}
}

// ---- acknowledged events next to persistent write faults (strace error injection in a child) -----------------
//
// From the k-th write of the writer's thread on every write fails: the sink's retry fails as well, so none of those
// events may be acknowledged; every acknowledged one must be in the files, whole and once.
// runChild runs a child (usually under strace) in its own process group and kills the whole group when it has
// not finished after d (a harness-side guard: the caller reports that as inconclusive). It returns whether the
// child finished by itself.
func runChild(c *exec.Cmd, d time.Duration) bool {
	c.SysProcAttr = &syscall.SysProcAttr{Setpgid: true}
	if err := c.Start(); err != nil {
		return false
	}
	done := make(chan struct{})
	go func() { c.Wait(); close(done) }()
	select {
	case <-done:
		return true
	case <-time.After(d):
		syscall.Kill(-c.Process.Pid, syscall.SIGKILL)
		<-done
		return false
	}
}

func c08WriteFaults(run *rt.Run) {
	child := os.Getenv("VERIF_AUX_FSWRITER")
	if child == "" {
		return
	}
	r := run.Rand()
	n := run.N(12, 300)
	for i := 0; i < n && !run.Stop(); i++ {
		cr := r.Fork()
		w := crashWorkload{Writers: 1, Records: 12, MaxBytes: rt.Pick(cr, []int{0, 150}), TSOnly: cr.Bool()}
		if cr.Intn(3) == 0 {
			w.ReopenEvery = cr.Range(2, 4)
		}
		k := cr.Range(1, 10)
		errno := rt.Pick(cr, []string{"ENOSPC", "EIO", "EDQUOT"})
		base, _ := os.MkdirTemp("", "fs08fault")
		dir := filepath.Join(base, "d")
		os.Mkdir(dir, 0o755)
		ackp := filepath.Join(base, "ack")
		run.Progress("C08 persistent write fault %d inject=write:error=%s:when=%d+ %+v", i, errno, k, w)
		c := exec.Command("strace", append([]string{"-f", "-o", filepath.Join(base, "tr"), "-e", "trace=write",
			"-e", fmt.Sprintf("inject=write:error=%s:when=%d+", errno, k), child}, w.args(dir, ackp)...)...)
		c.Env = append(os.Environ(), "GOMAXPROCS=1")
		runChild(c, 90*time.Second)
		a := readAck(ackp)
		if !a.done {
			run.Inconclusive("child did not finish under persistent write-error injection")
			os.RemoveAll(base)
			continue
		}
		files, _, _ := readAll(dir, nil)
		cnt := map[string]int{}
		for _, rs := range files {
			for _, p := range rs {
				cnt[p.ID]++
			}
		}
		for _, id := range a.order {
			if a.acked[id] && cnt[id] != 1 {
				run.Violation("history-pattern:lost-after-fault", fmt.Sprintf("record %s was acknowledged but occurs %d times in the files (every write from the %d-th on failed with %s)", id, cnt[id], k, errno),
					map[string]any{"workload": fmt.Sprintf("%+v", w), "acked": a.ackOrd, "called": a.order})
				break
			}
		}
		run.Add("persistent_fault_runs", 1)
		run.Add("persistent_fault_unacked", len(a.order)-len(a.acked))
		run.Eval(fmt.Sprintf("pfault|%s|%d|%v|%d", errno, k, w.TSOnly, w.MaxBytes))
		os.RemoveAll(base)
	}
}
