package fsink

import (
	"bytes"
	"context"
	"errors"
	"fmt"
	"io"
	"os"
	"os/exec"
	"path/filepath"
	"runtime"
	"strconv"
	"strings"
	"sync"
	"sync/atomic"
	"syscall"
	"testing"
	"time"

	"github.com/hashicorp/eventlogger"
	"github.com/hashicorp/eventlogger/sinks/channel"
	"github.com/hashicorp/eventlogger/sinks/writer"

	"verifharness/internal/rt"
)

// ---- harness writers ---------------------------------------------------------------------------------

// recWriter appends every Write in two halves with a yield in between: if the sink does not hold
// exclusive access, records interleave and the log no longer parses.
type recWriter struct {
	mu   sync.Mutex
	log  []byte
	mode string // ok fail short-nil short-err fail-once short-err-once
	n    int
	// failed counts the Write calls that returned an error, accepted the bytes those calls took all the same
	failed   int
	accepted int
	// werr is what a failing Write returns (errWriter if nil): which error a writer fails with is its own business,
	// "the underlying write fails" is any of them
	werr error
}

// writerErrors: what failing writers return in the wild, besides an error of their own.
var writerErrors = []error{nil, nil, syscall.EPIPE, io.ErrClosedPipe, &os.PathError{Op: "write", Path: "|1", Err: syscall.EPIPE},
	io.ErrShortWrite, io.EOF, context.Canceled, os.ErrClosed, syscall.ENOSPC, syscall.EAGAIN}

func (w *recWriter) failure() error {
	if w.werr != nil {
		return w.werr
	}
	return errWriter
}

var errWriter = errors.New("injected writer failure")

func (w *recWriter) Write(p []byte) (int, error) {
	w.mu.Lock()
	w.n++
	mode := w.mode
	if strings.HasSuffix(mode, "-once") {
		// a writer that fails a single time (the k-th Write) and works before and after
		if w.n == 2 {
			mode = strings.TrimSuffix(mode, "-once")
		} else {
			mode = "ok"
		}
	}
	if mode == "fail" || mode == "short-err" {
		w.failed++
	}
	w.mu.Unlock()
	switch mode {
	case "fail":
		return 0, w.failure()
	case "short-nil":
		k := len(p) / 2
		w.append(p[:k])
		return k, nil
	case "short-err":
		k := len(p) / 2
		w.append(p[:k])
		w.mu.Lock()
		w.accepted += k
		w.mu.Unlock()
		return k, w.failure()
	}
	h := len(p) / 2
	w.append(p[:h])
	runtime.Gosched()
	w.append(p[h:])
	return len(p), nil
}

func (w *recWriter) append(p []byte) {
	w.mu.Lock()
	w.log = append(w.log, p...)
	w.mu.Unlock()
}

func countID(recs []parsed, id string) int {
	n := 0
	for _, p := range recs {
		if p.ID == id {
			n++
		}
	}
	return n
}

// formatTable draws 0..3 formats; returns the table and the bytes under the configured format (nil if absent).
func formatTable(r *rt.Rand, configured string, rec []byte) (map[string][]byte, bool) {
	names := []string{"json", "cloudevents-json", "text"}
	tbl := map[string][]byte{}
	present := false
	eff := configured
	if eff == "" {
		eff = "json"
	}
	for _, n := range names {
		if r.Intn(2) == 0 {
			continue
		}
		if n == eff {
			tbl[n] = rec
			present = true
		} else {
			tbl[n] = []byte("#WRONG-" + n + ":1:x\n")
		}
	}
	if !present && r.Intn(3) > 0 {
		tbl[eff] = rec
		present = true
	}
	return tbl, present
}

func TestC13(t *testing.T) {
	run := rt.Start(t, "C13")
	defer run.Finish()
	r := run.Rand()
	c13Writer(run, r)
	c13FileSink(run, r)
	c13Channel(run, r)
	c13ChannelQueued(run, r)
	c13ChannelHistory(run, r)
	c13WriterRaw(run, r)
	c13FileFaults(run, r)
	c13PartialWrites(run, r)
}

// ---- writer.Sink ------------------------------------------------------------------------------------------

func c13Writer(run *rt.Run, r *rt.Rand) {
	n := run.N(300, 20000)
	for i := 0; i < n && !run.Stop(); i++ {
		cr := r.Fork()
		configured := rt.Pick(cr, []string{"", "", "json", "cloudevents-json", "text"})
		mode := rt.Pick(cr, []string{"ok", "ok", "ok", "fail", "short-nil", "short-err", "nil-writer", "fail-once", "short-err-once"})
		conc := cr.Range(1, 16)
		w := &recWriter{mode: mode, werr: rt.Pick(cr, writerErrors)}
		sink := &writer.Sink{Format: configured}
		if mode != "nil-writer" {
			sink.Writer = w
		}
		run.Progress("C13 writer %d format=%q mode=%s (failing with %v) conc=%d", i, configured, mode, w.failure(), conc)
		type call struct {
			id      string
			rec     []byte
			present bool
			nilEv   bool
			err     error
			out     *eventlogger.Event
		}
		calls := make([]*call, conc)
		var wg sync.WaitGroup
		bar := rt.NewBarrier(conc)
		for k := 0; k < conc; k++ {
			c := &call{id: fmt.Sprintf("x%d-%d", i, k)}
			c.rec = frame(c.id, genBody(cr, cr.Range(1, 200)))
			tbl, present := formatTable(cr, configured, c.rec)
			c.present = present
			c.nilEv = cr.Intn(40) == 0
			calls[k] = c
			wg.Add(1)
			go func() {
				defer wg.Done()
				bar.Wait()
				var ev *eventlogger.Event
				if !c.nilEv {
					ev = &eventlogger.Event{Type: "t", Formatted: tbl}
				}
				c.out, c.err = sink.Process(context.Background(), ev)
			}()
		}
		wg.Wait()
		recs, tear := parseRecords(w.log)
		wit := func(extra string) any {
			var cs []string
			for _, c := range calls {
				cs = append(cs, fmt.Sprintf("%s present=%v nil-event=%v -> err=%v", c.id, c.present, c.nilEv, c.err))
			}
			return map[string]any{"sink": "writer.Sink", "configured_format": configured, "writer": mode, "concurrent_calls": conc, "calls": cs, "writer_log_bytes": len(w.log), "detail": extra}
		}
		if mode == "ok" && tear != len(w.log) {
			run.Violation("history-pattern:interleaved", fmt.Sprintf("the writer's log does not parse into whole records beyond byte %d of %d: concurrent Process calls interleaved their bytes", tear, len(w.log)), wit(""))
		}
		once := strings.HasSuffix(mode, "-once")
		if once {
			// a single Write failed: the Process call it belongs to reports an error, the others succeed
			reported := 0
			for _, c := range calls {
				if c.err != nil && !c.nilEv && c.present {
					reported++
				}
			}
			// conservation: the log holds the acknowledged records and what the failed Write accepted, nothing else
			// (bytes of a call that reported an error do not turn up later, carried by somebody else's success)
			want := w.accepted
			for _, c := range calls {
				if c.err == nil && !c.nilEv && c.present {
					want += len(c.rec)
				}
			}
			if reported == w.failed && len(w.log) != want {
				run.Violation("history-pattern:success-without-bytes", fmt.Sprintf("the writer's log holds %d bytes; the acknowledged records and the %d bytes the failed Write accepted make %d: a Process call wrote something other than exactly its own bytes", len(w.log), w.accepted, want), wit(""))
			}
			switch {
			case reported < w.failed:
				run.Violation("history-pattern:success-without-bytes", fmt.Sprintf("%d Write call(s) of the underlying writer returned an error, yet only %d Process call(s) with a usable event reported one", w.failed, reported), wit(""))
			case reported > w.failed:
				run.Violation("history-pattern:spurious-error", fmt.Sprintf("%d Process call(s) with a usable event failed although only %d Write call(s) of the underlying writer did", reported, w.failed), wit(""))
			}
		}
		for _, c := range calls {
			mustFail := c.nilEv || !c.present || (mode != "ok" && !once)
			if once && !c.nilEv && c.present {
				mustFail = c.err != nil // which call met the failing Write is read off the results, judged above
			}
			switch {
			case mustFail && c.err == nil:
				run.Violation("history-pattern:success-without-bytes", fmt.Sprintf("Process(%s) reported success although the format is missing=%v / event nil=%v / writer=%s", c.id, !c.present, c.nilEv, mode), wit(""))
			case !mustFail && c.err != nil:
				run.Violation("history-pattern:spurious-error", fmt.Sprintf("Process(%s) failed (%v) although the configured format is present and the writer works", c.id, c.err), wit(""))
			}
			if c.err == nil && !mustFail && once {
				// the log holds the fragment of the failed Write as well: count the whole records themselves
				if got := bytes.Count(w.log, c.rec); got != 1 {
					run.Violation("history-pattern:exactly-once", fmt.Sprintf("record %s acknowledged by writer.Sink occurs %d times in the writer's log", c.id, got), wit(""))
				}
			} else if c.err == nil && !mustFail {
				if got := countID(recs, c.id); got != 1 {
					run.Violation("history-pattern:exactly-once", fmt.Sprintf("record %s acknowledged by writer.Sink occurs %d times in the writer's log", c.id, got), wit(""))
				} else {
					for _, p := range recs {
						if p.ID == c.id && !bytes.Equal(w.log[p.Off:p.Off+len(c.rec)], c.rec) {
							run.Violation("history-pattern:content", "record "+c.id+" was written with different bytes", wit(""))
						}
					}
				}
			}
			if c.out != nil {
				run.Add("sink_returned_an_event", 1) // not part of the statement; observed, not judged
			}
		}
		if strings.Contains(string(w.log), "WRONG-") {
			run.Violation("history-pattern:wrong-format", "bytes of a format other than the configured one were written", wit(""))
		}
		run.Eval(fmt.Sprintf("w|%s|%s|%d", configured, mode, conc))
		if run.NeedSample() && conc >= 3 {
			run.Sample(wit("sample"))
		}
		run.SetAdd("writer_modes", mode)
	}
}

// ---- FileSink: formats and special paths -----------------------------------------------------------------

func c13FileSink(run *rt.Run, r *rt.Rand) {
	n := run.N(150, 8000)
	for i := 0; i < n && !run.Stop(); i++ {
		cr := r.Fork()
		configured := rt.Pick(cr, []string{"", "", "json", "cloudevents-json"})
		kind := rt.Pick(cr, []string{"file", "file", "file", "devnull", "stdout", "stderr", "devfull", "devfull", "stdout-broken", "stderr-broken"})
		dir, _ := os.MkdirTemp("", "fs13")
		sink := &eventlogger.FileSink{Path: dir, FileName: "out.log", Format: configured}
		var capture *os.File
		oldOut, oldErr := os.Stdout, os.Stderr
		switch kind {
		case "devnull":
			sink.Path = "/dev/null"
		case "stdout":
			sink.Path = "/dev/stdout"
			capture, _ = os.Create(filepath.Join(dir, "captured"))
			os.Stdout = capture
		case "stderr":
			sink.Path = "/dev/stderr"
			capture, _ = os.Create(filepath.Join(dir, "captured"))
			os.Stderr = capture
		case "devfull":
			sink.Path, sink.FileName = "/dev", "full"
		case "stdout-broken", "stderr-broken":
			// the pass-through specials with a descriptor every write to which fails (closed)
			capture, _ = os.Create(filepath.Join(dir, "captured"))
			capture.Close()
			if kind == "stdout-broken" {
				sink.Path, os.Stdout = "/dev/stdout", capture
			} else {
				sink.Path, os.Stderr = "/dev/stderr", capture
			}
			capture = nil
		}
		run.Progress("C13 filesink %d kind=%s format=%q", i, kind, configured)
		// Reopen calls next to the writers (regular files and the device whose writes always fail)
		var stopReopen int32
		var rwg sync.WaitGroup
		if (kind == "file" || kind == "devfull") && cr.Bool() {
			rwg.Add(1)
			go func() {
				defer rwg.Done()
				for atomic.LoadInt32(&stopReopen) == 0 {
					sink.Reopen()
					runtime.Gosched()
				}
			}()
		}
		conc := cr.Range(1, 8)
		type call struct {
			id      string
			rec     []byte
			present bool
			err     error
		}
		calls := make([]*call, conc)
		var wg sync.WaitGroup
		for k := 0; k < conc; k++ {
			c := &call{id: fmt.Sprintf("f%d-%d", i, k)}
			c.rec = frame(c.id, genBody(cr, cr.Range(1, 120)))
			tbl, present := formatTable(cr, configured, c.rec)
			c.present = present
			calls[k] = c
			wg.Add(1)
			go func() {
				defer wg.Done()
				_, c.err = sink.Process(context.Background(), &eventlogger.Event{Type: "t", Formatted: tbl})
			}()
		}
		wg.Wait()
		atomic.StoreInt32(&stopReopen, 1)
		rwg.Wait()
		os.Stdout, os.Stderr = oldOut, oldErr
		if capture != nil {
			capture.Close()
		}
		wit := func(extra string) any {
			var cs []string
			for _, c := range calls {
				cs = append(cs, fmt.Sprintf("%s present=%v -> err=%v", c.id, c.present, c.err))
			}
			return map[string]any{"sink": "FileSink", "kind": kind, "configured_format": configured, "calls": cs, "detail": extra}
		}
		var data []byte
		switch kind {
		case "file":
			data, _ = os.ReadFile(filepath.Join(dir, "out.log"))
		case "stdout", "stderr":
			data, _ = os.ReadFile(filepath.Join(dir, "captured"))
		}
		recs, tear := parseRecords(data)
		if tear != len(data) {
			run.Violation("history-pattern:interleaved", fmt.Sprintf("output of FileSink (%s) does not parse into whole records beyond byte %d of %d", kind, tear, len(data)), wit(""))
		}
		for _, c := range calls {
			switch kind {
			case "devnull":
				if c.err != nil {
					run.Violation("history-pattern:spurious-error", "FileSink on /dev/null must report success: "+c.err.Error(), wit(""))
				}
			case "devfull":
				if c.err == nil {
					run.Violation("history-pattern:success-on-write-error", fmt.Sprintf("FileSink reported success for %s although every write to /dev/full fails with ENOSPC", c.id), wit(""))
				}
			case "stdout-broken", "stderr-broken":
				if c.err == nil {
					run.Violation("history-pattern:success-on-write-error", fmt.Sprintf("FileSink (%s) reported success for %s although every write to the descriptor fails (it is closed)", kind, c.id), wit(""))
				}
			default:
				if c.present != (c.err == nil) {
					run.Violation("history-pattern:format-presence", fmt.Sprintf("FileSink(%s): record %s format present=%v but err=%v", kind, c.id, c.present, c.err), wit(""))
				}
				if c.err == nil && countID(recs, c.id) != 1 {
					run.Violation("history-pattern:exactly-once", fmt.Sprintf("record %s acknowledged by FileSink (%s) occurs %d times in its output", c.id, kind, countID(recs, c.id)), wit(""))
				}
				if c.err == nil {
					for _, p := range recs {
						if p.ID == c.id && !bytes.Equal(data[p.Off:p.Off+len(c.rec)], c.rec) {
							run.Violation("history-pattern:content", "record "+c.id+" was written with different bytes", wit(""))
						}
					}
				}
			}
		}
		if strings.Contains(string(data), "WRONG-") {
			run.Violation("history-pattern:wrong-format", "bytes of a format other than the configured one were written", wit(""))
		}
		if kind == "devnull" || kind == "devfull" {
			if ents, _ := os.ReadDir(dir); len(ents) != 0 {
				run.Violation("history-pattern:special-path", "a special path created files", wit(""))
			}
		}
		run.Eval(fmt.Sprintf("f|%s|%s|%d", kind, configured, conc))
		run.SetAdd("filesink_kinds", kind)
		os.RemoveAll(dir)
	}
}

// ---- FileSink: a write that fails once (strace error injection in a child) ----------------------------------

func c13FileFaults(run *rt.Run, r *rt.Rand) {
	child := os.Getenv("VERIF_AUX_FSWRITER")
	if child == "" {
		run.Inconclusive("write-fault runs skipped: VERIF_AUX_FSWRITER not set (stand-alone go test)")
		return
	}
	n := run.N(24, 600)
	for i := 0; i < n && !run.Stop(); i++ {
		cr := r.Fork()
		w := crashWorkload{Writers: 1, Records: 10, MaxBytes: rt.Pick(cr, []int{0, 150}), TSOnly: cr.Bool()}
		if cr.Intn(3) == 0 {
			w.ReopenEvery = cr.Range(2, 4) // the sink's byte counter restarts at every (re)open, the file does not
		}
		k := cr.Range(1, 12)
		errno := rt.Pick(cr, []string{"EIO", "ENOSPC", "EINTR"})
		base, _ := os.MkdirTemp("", "fs13fault")
		dir := filepath.Join(base, "d")
		os.Mkdir(dir, 0o755)
		ackp := filepath.Join(base, "ack")
		// a transient fault (the k-th write of a thread fails once) or a persistent one (from the k-th on every
		// write fails, so the sink's single retry fails as well and nothing after it may be acknowledged)
		when := fmt.Sprint(k)
		if cr.Intn(3) == 0 {
			when += "+"
			if errno == "EINTR" {
				errno = "EIO" // the Go runtime repeats a write that was interrupted for as long as it is interrupted
			}
		}
		// the call that fails is a write, or - for a sink that makes its data durable before it acknowledges - one of
		// the sync family (a library that never syncs never meets that fault: such a run is an ordinary run)
		sysc := "write"
		if cr.Intn(4) == 0 {
			sysc = rt.Pick(cr, []string{"fsync", "fdatasync"})
			errno = "EIO"
			when = fmt.Sprint(cr.Range(1, 6))
		}
		run.Progress("C13 fault %d inject=%s:error=%s:when=%s %+v", i, sysc, errno, when, w)
		c := exec.Command("strace", append([]string{"-f", "-o", filepath.Join(base, "tr"), "-e", "trace=write,fsync,fdatasync",
			"-e", fmt.Sprintf("inject=%s:error=%s:when=%s", sysc, errno, when), child}, w.args(dir, ackp)...)...)
		c.Env = append(os.Environ(), "GOMAXPROCS=1")
		runChild(c, 90*time.Second)
		a := readAck(ackp)
		if !a.done {
			run.Inconclusive("child did not finish under write-error injection")
			os.RemoveAll(base)
			continue
		}
		// all acknowledged present exactly once, whole; unacknowledged at most once
		files, tear, size := readAll(dir, nil)
		wit := func(extra string) any {
			return map[string]any{"sink": "FileSink", "fault": fmt.Sprintf("%s:error=%s:when=%s (k: the k-th such call of a thread fails once; k+: every one from the k-th on)", sysc, errno, when), "workload": fmt.Sprintf("%+v", w), "acked": a.ackOrd, "called": a.order, "detail": extra}
		}
		cnt := map[string]int{}
		for nme, rs := range files {
			if tear[nme] != size[nme] {
				run.Violation("history-pattern:torn", fmt.Sprintf("after a failed write, file %s holds a partial record", nme), wit(""))
			}
			for _, p := range rs {
				cnt[p.ID]++
			}
		}
		for _, id := range a.order {
			if a.acked[id] && cnt[id] != 1 {
				run.Violation("history-pattern:exactly-once", fmt.Sprintf("record %s was acknowledged but occurs %d times after a transient write failure", id, cnt[id]), wit(""))
			}
			if !a.acked[id] && cnt[id] > 1 {
				run.Violation("history-pattern:exactly-once", fmt.Sprintf("unacknowledged record %s occurs %d times", id, cnt[id]), wit(""))
			}
		}
		run.Add("write_fault_runs", 1)
		run.Add("write_fault_unacked", len(a.order)-len(a.acked))
		run.Eval(fmt.Sprintf("fault|%s|%s|%s|%v|%d", sysc, errno, when, w.TSOnly, w.MaxBytes))
		os.RemoveAll(base)
	}
}

// ---- FileSink: a write that is accepted partly and then fails (RLIMIT_FSIZE in a child) -----------------------
//
// A write that crosses the limit is short, the continuation fails with EFBIG: the sink sees an error after some
// bytes of the record reached the file. Its single retry goes to whatever reopen yields (a new file in the
// timestamped naming mode). The fragment left at the limit is the trace of the failed attempt; everything else
// must be whole records, and every acknowledged record must be there exactly once.
func c13PartialWrites(run *rt.Run, r *rt.Rand) {
	child := os.Getenv("VERIF_AUX_FSWRITER")
	if child == "" {
		return
	}
	n := run.N(16, 400)
	for i := 0; i < n && !run.Stop(); i++ {
		cr := r.Fork()
		limit := cr.Range(120, 700)
		// rotation is "enabled" (file names carry a timestamp, so a reopen yields a new file) but never due
		w := crashWorkload{Writers: 1, Records: cr.Range(6, 30), TSOnly: cr.Intn(4) == 0, MaxBytes: 1 << 20}
		if cr.Intn(3) == 0 {
			w.ReopenEvery = cr.Range(2, 5)
		}
		base, _ := os.MkdirTemp("", "fs13partial")
		dir := filepath.Join(base, "d")
		os.Mkdir(dir, 0o755)
		ackp := filepath.Join(base, "ack")
		run.Progress("C13 partial write %d RLIMIT_FSIZE=%d %+v", i, limit, w)
		c := exec.Command(child, append(w.args(dir, "-"), "-fsize", strconv.Itoa(limit))...)
		c.Env = append(os.Environ(), "GOMAXPROCS=1")
		out, _ := c.Output()
		os.WriteFile(ackp, out, 0o644)
		a := readAck(ackp)
		if !a.done {
			run.Inconclusive("child did not finish under RLIMIT_FSIZE")
			os.RemoveAll(base)
			continue
		}
		files, tear, size := readAll(dir, nil)
		wit := func(extra string) any {
			return map[string]any{"sink": "FileSink", "fault": fmt.Sprintf("RLIMIT_FSIZE=%d: the write that crosses it is accepted partly, then fails with EFBIG", limit), "workload": fmt.Sprintf("%+v", w), "acked": a.ackOrd, "called": a.order, "file_sizes": size, "detail": extra}
		}
		cnt := map[string]int{}
		partial := 0
		for nme, rs := range files {
			if tear[nme] != size[nme] {
				if size[nme] == limit {
					partial++ // the fragment of the attempt that hit the limit
				} else {
					run.Violation("history-pattern:torn", fmt.Sprintf("file %s (%d bytes, limit %d) holds bytes that are not whole records at offset %d", nme, size[nme], limit, tear[nme]), wit(""))
				}
			}
			for _, p := range rs {
				cnt[p.ID]++
			}
		}
		for _, id := range a.order {
			if a.acked[id] && cnt[id] != 1 {
				run.Violation("history-pattern:exactly-once", fmt.Sprintf("record %s was acknowledged but occurs %d times as a whole record after a partly accepted write", id, cnt[id]), wit(""))
			}
			if !a.acked[id] && cnt[id] > 1 {
				run.Violation("history-pattern:exactly-once", fmt.Sprintf("unacknowledged record %s occurs %d times", id, cnt[id]), wit(""))
			}
		}
		run.Add("partial_write_runs", 1)
		run.Add("partial_write_fragments", partial)
		run.Add("partial_write_unacked", len(a.order)-len(a.acked))
		run.Eval(fmt.Sprintf("partial|%d|%v|%d", limit/100, w.TSOnly, partial))
		os.RemoveAll(base)
	}
}

// ---- ChannelSink ------------------------------------------------------------------------------------------------

const chanWatchdog = 8 * time.Second

func c13Channel(run *rt.Run, r *rt.Rand) {
	n := run.N(250, 12000)
	for i := 0; i < n && !run.Stop(); i++ {
		cr := r.Fork()
		capn := rt.Pick(cr, []int{0, 1, 4})
		consumer := rt.Pick(cr, []string{"none", "immediate", "late"})
		timeout := rt.Pick(cr, []time.Duration{5 * time.Millisecond, time.Hour})
		ctxKind := rt.Pick(cr, []string{"background", "cancelled", "cancel-later", "deadline-far", "deadline-near"})
		ncalls := cr.Range(1, 6)
		ch := make(chan *eventlogger.Event, capn)
		sink, err := channel.NewChannelSink(ch, timeout)
		if err != nil {
			panic(err)
		}
		run.Progress("C13 channel %d cap=%d consumer=%s timeout=%v ctx=%s calls=%d", i, capn, consumer, timeout, ctxKind, ncalls)
		ctx, cancel := context.WithCancel(context.Background())
		switch ctxKind {
		case "cancelled":
			cancel()
		case "deadline-far":
			ctx, cancel = context.WithTimeout(context.Background(), time.Hour)
		case "deadline-near":
			ctx, cancel = context.WithTimeout(context.Background(), 5*time.Millisecond)
		}
		var mu sync.Mutex
		received := map[*eventlogger.Event]int{}
		drainStop := make(chan struct{})
		var dwg sync.WaitGroup
		startDrain := func() {
			dwg.Add(1)
			go func() {
				defer dwg.Done()
				for {
					select {
					case e := <-ch:
						mu.Lock()
						received[e]++
						mu.Unlock()
					case <-drainStop:
						// final non-blocking drain
						for {
							select {
							case e := <-ch:
								mu.Lock()
								received[e]++
								mu.Unlock()
							default:
								return
							}
						}
					}
				}
			}()
		}
		if consumer == "immediate" {
			startDrain()
		}
		type call struct {
			ev   *eventlogger.Event
			err  error
			out  *eventlogger.Event
			done chan struct{}
		}
		calls := make([]*call, ncalls)
		for k := range calls {
			c := &call{ev: &eventlogger.Event{Type: "t", Payload: fmt.Sprintf("c%d-%d", i, k)}, done: make(chan struct{})}
			calls[k] = c
			go func() {
				defer close(c.done)
				c.out, c.err = sink.Process(ctx, c.ev)
			}()
		}
		if ctxKind == "cancel-later" {
			time.Sleep(time.Duration(cr.Intn(1500)) * time.Microsecond)
			cancel()
		}
		// which calls can be held up legitimately? none for long: either the channel takes the event, or the
		// shorter of (timeout, context) ends the wait. With a 1 h timeout, a context that is never done and no
		// room in the channel the call may block: release those by starting the consumer.
		mayBlock := timeout == time.Hour && (ctxKind == "background" || ctxKind == "deadline-far") && consumer != "immediate"
		wit := func(extra string) any {
			var cs []string
			for _, c := range calls {
				select {
				case <-c.done:
					cs = append(cs, fmt.Sprintf("%v -> err=%v", c.ev.Payload, c.err))
				default:
					cs = append(cs, fmt.Sprintf("%v -> still blocked", c.ev.Payload))
				}
			}
			return map[string]any{"sink": "ChannelSink", "capacity": capn, "consumer": consumer, "timeout": timeout.String(), "context": ctxKind, "calls": cs, "detail": extra}
		}
		if mayBlock {
			time.Sleep(2 * time.Millisecond)
			startDrain()
			consumer = "released"
		}
		blocked := false
		for _, c := range calls {
			select {
			case <-c.done:
			case <-time.After(chanWatchdog):
				blocked = true
			}
		}
		if blocked {
			// decided by the discriminating gap (5 ms / already-done context vs the 8 s watchdog)
			run.Violation("history-pattern:channel-blocked", fmt.Sprintf("ChannelSink.Process blocked beyond the shorter of its timeout (%v) and the context (%s)", timeout, ctxKind), wit(""))
			cancel()
			if consumer == "none" || consumer == "late" {
				startDrain()
			}
			close(drainStop)
			continue
		}
		if consumer == "late" || consumer == "none" {
			startDrain() // a consumer that arrives after every call returned
		}
		close(drainStop)
		dwg.Wait()
		cancel()
		for _, c := range calls {
			mu.Lock()
			got := received[c.ev]
			mu.Unlock()
			switch {
			case c.err == nil && got != 1:
				run.Violation("history-pattern:success-not-delivered", fmt.Sprintf("ChannelSink reported success but the event was received %d times", got), wit(""))
			case c.err != nil && got != 0:
				run.Violation("history-pattern:error-but-delivered", fmt.Sprintf("ChannelSink reported an error (%v) but the event was received %d times", c.err, got), wit(""))
			}
			if c.out != nil {
				run.Add("sink_returned_an_event", 1) // not part of the statement; observed, not judged
			}
			if c.err != nil {
				ctxErr := errors.Is(c.err, context.Canceled) || errors.Is(c.err, context.DeadlineExceeded)
				isTimeout := strings.Contains(c.err.Error(), "timeout")
				// which error is reported is not part of the statement (only that one is, and when): the
				// library's choices are recorded as observations, not judged
				switch {
				case (ctxKind == "background" || ctxKind == "deadline-far") && ctxErr:
					run.Add("channel_ctx_error_with_live_ctx", 1)
				case ctxErr:
					run.Add("channel_errors_ctx", 1)
				case isTimeout:
					run.Add("channel_errors_timeout", 1)
				default:
					run.Add("channel_errors_other", 1)
				}
			}
		}
		// with room or a consumer and a live context, calls must succeed
		if (consumer == "immediate" || consumer == "released") && (ctxKind == "background" || ctxKind == "deadline-far") {
			for _, c := range calls {
				if c.err != nil && timeout == time.Hour {
					run.Violation("history-pattern:spurious-error", "ChannelSink failed although a consumer was draining and neither the timeout nor the context ended the wait: "+c.err.Error(), wit(""))
				}
			}
		}
		mu.Lock()
		for e, k := range received {
			if k > 1 {
				run.Violation("history-pattern:duplicate", fmt.Sprintf("event %v was received %d times", e.Payload, k), wit(""))
			}
		}
		mu.Unlock()
		run.Eval(fmt.Sprintf("c|%d|%s|%v|%s|%d", capn, consumer, timeout, ctxKind, ncalls))
		if i == 0 {
			run.Sample(wit("sample"))
		}
	}
	_ = io.EOF
}

// c13ChannelQueued: the bound on a Process call is its own ("the shorter of the timeout and the context"), whatever
// other calls on the same sink are doing. Call A (live context, 1 h timeout, no room in the channel) may wait; call
// B arrives while A waits, with a context that is already done or ends within milliseconds, and must return - it
// does not queue behind A. Decided by the gap between "at once" and the watchdog, then A is released by a consumer.
func c13ChannelQueued(run *rt.Run, r *rt.Rand) {
	n := run.N(24, 600)
	for i := 0; i < n && !run.Stop(); i++ {
		capn := rt.Pick(r, []int{0, 1})
		nA := r.Range(1, 3)
		bKind := rt.Pick(r, []string{"cancelled", "deadline-near"})
		ch := make(chan *eventlogger.Event, capn)
		sink, err := channel.NewChannelSink(ch, time.Hour)
		if err != nil {
			panic(err)
		}
		for k := 0; k < capn; k++ {
			ch <- &eventlogger.Event{Type: "filler"}
		}
		run.Progress("C13 channel queued %d cap=%d waiting=%d b=%s", i, capn, nA, bKind)
		var awg sync.WaitGroup
		aErr := make([]error, nA)
		for k := 0; k < nA; k++ {
			awg.Add(1)
			go func(k int) {
				defer awg.Done()
				_, aErr[k] = sink.Process(context.Background(), &eventlogger.Event{Type: "t", Payload: fmt.Sprintf("a%d", k)})
			}(k)
		}
		time.Sleep(2 * time.Millisecond) // A is (most likely) waiting in Process now; if it is not yet, B is only easier to serve
		bctx, cancel := context.WithCancel(context.Background())
		if bKind == "cancelled" {
			cancel()
		} else {
			bctx, cancel = context.WithTimeout(context.Background(), 5*time.Millisecond)
		}
		bDone := make(chan error, 1)
		go func() {
			_, err := sink.Process(bctx, &eventlogger.Event{Type: "t", Payload: "b"})
			bDone <- err
		}()
		wit := map[string]any{"sink": "ChannelSink", "capacity": capn, "timeout": "1h0m0s", "calls_waiting_with_a_live_context": nA, "context_of_the_late_call": bKind}
		select {
		case err := <-bDone:
			if err == nil {
				run.Violation("history-pattern:success-not-delivered", "ChannelSink reported success for a call whose context was done while the channel had no room and nobody was receiving", wit)
			}
		case <-time.After(chanWatchdog):
			run.Violation("history-pattern:channel-blocked", fmt.Sprintf("ChannelSink.Process with a context that is %s blocked while %d other call(s) on the sink were waiting for room: the bound of a call depends on the calls before it", bKind, nA), wit)
		}
		cancel()
		// release the waiting calls
		stop := make(chan struct{})
		go func() {
			for {
				select {
				case <-ch:
				case <-stop:
					return
				}
			}
		}()
		awg.Wait()
		close(stop)
		for k, e := range aErr {
			if e != nil {
				run.Violation("history-pattern:spurious-error", fmt.Sprintf("waiting call a%d failed (%v) although a consumer arrived and neither its timeout nor its context ended the wait", k, e), wit)
			}
		}
		run.Eval(fmt.Sprintf("queued|%d|%d|%s", capn, nA, bKind))
	}
}

// c13WriterRaw: what is stored under a format is a byte string, not a line: it may lack a trailing newline, be
// binary, or be a window into a buffer that also holds the value of another format. A sink writes exactly those
// bytes and leaves the event's table as it found it (the next sink, for the neighbouring format, writes exactly
// its bytes).
func c13WriterRaw(run *rt.Run, r *rt.Rand) {
	n := run.N(120, 6000)
	for i := 0; i < n && !run.Stop(); i++ {
		a, b := genBody(r, r.Range(1, 40)), genBody(r, r.Range(1, 40))
		switch r.Intn(4) {
		case 0:
			a = append(a, '\n')
		case 1:
			a[len(a)-1] = 'x' // certainly no newline at the end
		}
		buf := append(append([]byte(nil), a...), b...)
		wantA, wantB := append([]byte(nil), a...), append([]byte(nil), b...)
		ev := &eventlogger.Event{Type: "t", Formatted: map[string][]byte{"json": buf[:len(a)], "text": buf[len(a):]}}
		wa, wb := &recWriter{mode: "ok"}, &recWriter{mode: "ok"}
		sa, sb := &writer.Sink{Format: "json", Writer: wa}, &writer.Sink{Format: "text", Writer: wb}
		_, errA := sa.Process(context.Background(), ev)
		_, errB := sb.Process(context.Background(), ev)
		wit := map[string]any{"sink": "writer.Sink", "json_value": fmt.Sprintf("%q", wantA), "text_value": fmt.Sprintf("%q", wantB), "written_by_json_sink": fmt.Sprintf("%q", wa.log), "written_by_text_sink": fmt.Sprintf("%q", wb.log),
			"note": "both values are windows into one buffer, json first"}
		run.Eval(fmt.Sprintf("raw|%v|%d|%d", len(a) > 0 && a[len(a)-1] == '\n', len(a), len(b)))
		switch {
		case errA != nil || errB != nil:
			run.Violation("history-pattern:spurious-error", fmt.Sprintf("Process failed (%v / %v) although the configured format is present and the writer works", errA, errB), wit)
		case !bytes.Equal(wa.log, wantA):
			run.Violation("history-pattern:content", "the sink for format json did not write exactly the bytes stored under json", wit)
		case !bytes.Equal(wb.log, wantB):
			run.Violation("history-pattern:content", "the sink for format text did not write exactly the bytes stored under text (after the json sink had processed the same event)", wit)
		case !bytes.Equal(ev.Formatted["json"], wantA) || !bytes.Equal(ev.Formatted["text"], wantB):
			run.Violation("history-pattern:content", "a sink changed the bytes stored in the event's format table", wit)
		}
	}
}

// c13ChannelHistory: the bound of a call is its own also over a history of calls on one sink. A first call times out
// (no room, nobody receiving); later calls find the channel still without room, their context is live, and a
// consumer starts receiving well within the timeout. "Reports an error once its timeout elapsed or the context is
// done": an error of such a call that comes back before the timeout has elapsed is premature. The elapsed time is
// measured around the call on the monotonic clock, so it can only overstate how long the sink waited: a loaded
// machine makes the check miss, never fire.
func c13ChannelHistory(run *rt.Run, r *rt.Rand) {
	n := run.N(24, 600)
	const timeout = 60 * time.Millisecond
	for i := 0; i < n && !run.Stop(); i++ {
		cr := r.Fork()
		capn := rt.Pick(cr, []int{0, 1, 2})
		nfirst := cr.Range(1, 2)
		nlater := cr.Range(1, 3)
		drainAfter := time.Duration(cr.Range(1, 8)) * time.Millisecond
		ch := make(chan *eventlogger.Event, capn)
		sink, err := channel.NewChannelSink(ch, timeout)
		if err != nil {
			panic(err)
		}
		run.Progress("C13 channel history %d cap=%d first=%d later=%d drain-after=%v", i, capn, nfirst, nlater, drainAfter)
		ctx := context.Background()
		received := map[*eventlogger.Event]int{}
		fill := make([]*eventlogger.Event, capn)
		for k := range fill {
			fill[k] = &eventlogger.Event{Type: "t", Payload: fmt.Sprintf("h%d-fill%d", i, k)}
			if _, err := sink.Process(ctx, fill[k]); err != nil {
				run.Violation("history-pattern:spurious-error", "ChannelSink failed although the channel had room: "+err.Error(), nil)
			}
		}
		wit := map[string]any{"sink": "ChannelSink", "capacity": capn, "timeout": timeout.String(), "calls_that_timed_out_first": nfirst, "consumer_starts_after": drainAfter.String()}
		ok := true
		for k := 0; k < nfirst && ok; k++ {
			ev := &eventlogger.Event{Type: "t", Payload: fmt.Sprintf("h%d-first%d", i, k)}
			t0 := time.Now()
			_, err := sink.Process(ctx, ev)
			el := time.Since(t0)
			switch {
			case err == nil:
				run.Violation("history-pattern:success-not-delivered", "ChannelSink reported success while the channel had no room and nobody was receiving", wit)
				ok = false
			case el < timeout:
				run.Violation("history-pattern:error-before-timeout", fmt.Sprintf("ChannelSink reported %q after %v with a live context: its timeout (%v) had not elapsed", err, el, timeout), wit)
				ok = false
			}
		}
		if !ok {
			continue
		}
		type res struct {
			ev  *eventlogger.Event
			err error
			el  time.Duration
		}
		out := make([]res, nlater)
		var wg sync.WaitGroup
		for k := 0; k < nlater; k++ {
			wg.Add(1)
			go func(k int) {
				defer wg.Done()
				ev := &eventlogger.Event{Type: "t", Payload: fmt.Sprintf("h%d-later%d", i, k)}
				t0 := time.Now()
				_, err := sink.Process(ctx, ev)
				out[k] = res{ev, err, time.Since(t0)}
			}(k)
		}
		time.Sleep(drainAfter)
		stop := make(chan struct{})
		var dwg sync.WaitGroup
		dwg.Add(1)
		go func() {
			defer dwg.Done()
			for {
				select {
				case e := <-ch:
					received[e]++
				case <-stop:
					for {
						select {
						case e := <-ch:
							received[e]++
						default:
							return
						}
					}
				}
			}
		}()
		wg.Wait()
		close(stop)
		dwg.Wait()
		premature, delivered := 0, 0
		for _, o := range out {
			got := received[o.ev]
			switch {
			case o.err == nil && got != 1:
				run.Violation("history-pattern:success-not-delivered", fmt.Sprintf("ChannelSink reported success but the event was received %d times", got), wit)
			case o.err != nil && got != 0:
				run.Violation("history-pattern:error-but-delivered", fmt.Sprintf("ChannelSink reported an error (%v) but the event was received %d times", o.err, got), wit)
			case o.err != nil && o.el < timeout:
				premature++
				run.Violation("history-pattern:error-before-timeout", fmt.Sprintf("after an earlier call on the sink had timed out, a call with a live context got %q after %v: its own timeout (%v) had not elapsed, and a consumer began receiving %v after the call", o.err, o.el, timeout, drainAfter), wit)
			}
			if o.err == nil {
				delivered++
			}
		}
		run.Add("channel_history_later_calls", nlater)
		run.Add("channel_history_later_delivered", delivered)
		run.Eval(fmt.Sprintf("ch-hist|%d|%d|%d|%v", capn, nfirst, nlater, drainAfter))
	}
}
