// Package stock holds the monitor for C19: pipelines composed of the library's own nodes, shared
// across pipelines and goroutines, under concurrent Sends and control calls (race detector +
// output integrity).
package stock

import (
	"bytes"
	"context"
	"encoding/json"
	"fmt"
	"net/url"
	"os"
	"path/filepath"
	"reflect"
	"runtime"
	"strings"
	"sync"
	"sync/atomic"
	"testing"
	"time"

	"github.com/hashicorp/eventlogger"
	"github.com/hashicorp/eventlogger/filters/encrypt"
	"github.com/hashicorp/eventlogger/filters/gated"
	"github.com/hashicorp/eventlogger/formatter_filters/cloudevents"
	"github.com/hashicorp/eventlogger/sinks/channel"
	"github.com/hashicorp/eventlogger/sinks/writer"
	wrapping "github.com/hashicorp/go-kms-wrapping/v2"

	"verifharness/internal/cryp"
	"verifharness/internal/rt"
)

type plainPayload struct {
	ID     string `class:"public"`
	Secret string `class:"secret"`
	Sens   string `class:"sensitive"`
	Hm     string `class:"sensitive,hmac-sha256"`
	Pub    string `class:"public"`
	N      int
}

type rotPayload struct {
	ID   string `class:"public"`
	w    wrapping.Wrapper
	salt []byte
}

func (r *rotPayload) Wrapper() wrapping.Wrapper { return r.w }
func (r *rotPayload) HmacSalt() []byte          { return r.salt }
func (r *rotPayload) HmacInfo() []byte          { return nil }

// lockedBuf is the io.Writer behind writer.Sink.
type lockedBuf struct {
	mu sync.Mutex
	b  bytes.Buffer
}

func (l *lockedBuf) Write(p []byte) (int, error) {
	// split writes: a sink that does not serialise Process calls interleaves bytes here
	l.mu.Lock()
	l.b.Write(p[:len(p)/2])
	l.mu.Unlock()
	runtime.Gosched()
	l.mu.Lock()
	l.b.Write(p[len(p)/2:])
	l.mu.Unlock()
	return len(p), nil
}

type sinkInfo struct {
	id           string
	kind         string // file writer channel
	format       string // json cloudevents-json
	dir          string
	buf          *lockedBuf
	ch           chan *eventlogger.Event
	got          sync.Map // channel: event id -> *int64
	memMu        sync.Mutex
	members      [][]string // channel: members of every composite received
	fs           *eventlogger.FileSink
	afterEncrypt bool         // every pipeline feeding this sink has the encrypt filter before its formatter
	encLayers    map[int]bool // numbers of encrypt filters in the pipelines feeding this sink
}

type composition struct {
	b     *eventlogger.Broker
	sinks map[string]*sinkInfo
	enc   []*encrypt.Filter
	ce    []*cloudevents.FormatterFilter
	files []*eventlogger.FileSink
	desc  []string
	keys  [][]byte
	cfgs  []hcfg // (wrapper key, salt) pairs ever installed as a whole
	keyMu sync.Mutex
	pairs map[string]bool
	tmp   string
	// the two sinks that receive composites (flush events down pg, expired/closed groups through pc)
	gatedSinks []*sinkInfo
	// the library's own gated.Payload: one pipeline gates and composes it, a second pipeline for the same event
	// type formats the very same payload; both end in private writer sinks
	stockGate *gated.Filter
	stockBufs []*lockedBuf
}

type hcfg struct {
	key, salt []byte
}

func (c *composition) addKey(k []byte, salt string) {
	c.keyMu.Lock()
	c.keys = append(c.keys, k)
	c.cfgs = append(c.cfgs, hcfg{k, []byte(salt)})
	c.keyMu.Unlock()
}

func kindOfNode(id string) string { return id[:strings.Index(id, "-")] }

// build draws 1..4 pipelines for type "plain" (nodes shared), one gated pipeline for type "gated"
// whose composites go back through the same Broker to type "composite".
func build(r *rt.Rand, tmp string) *composition {
	b, _ := eventlogger.NewBroker()
	c := &composition{b: b, sinks: map[string]*sinkInfo{}, pairs: map[string]bool{}, tmp: tmp}
	must := func(err error) {
		if err != nil {
			panic(err)
		}
	}
	reg := func(id string, n eventlogger.Node) { must(b.RegisterNode(eventlogger.NodeID(id), n)) }
	// node pool
	k0 := r.Bytes(32)
	c.addKey(k0, "s0")
	pool := map[string][]string{}
	for i := 0; i < 2; i++ {
		id := fmt.Sprintf("filter-%d", i)
		mod := i + 2
		reg(id, &eventlogger.Filter{Predicate: func(e *eventlogger.Event) (bool, error) {
			if p, ok := e.Payload.(*plainPayload); ok {
				return p.N%mod != 1, nil
			}
			if l, ok := e.Payload.([]*plainPayload); ok && len(l) == 1 {
				return l[0].N%mod != 1, nil
			}
			return true, nil
		}})
		pool["filter"] = append(pool["filter"], id)
		ef := &encrypt.Filter{Wrapper: cryp.NewWrapper(k0, "k0"), HmacSalt: []byte("s0")}
		c.enc = append(c.enc, ef)
		eid := fmt.Sprintf("encrypt-%d", i)
		reg(eid, ef)
		pool["encrypt"] = append(pool["encrypt"], eid)
	}
	reg("jsonfmt-0", &eventlogger.JSONFormatter{})
	reg("jsonff-0", &eventlogger.JSONFormatterFilter{Predicate: func(e interface{}) (bool, error) { return true, nil }})
	src, _ := url.Parse("https://example.com/src")
	cef := &cloudevents.FormatterFilter{Source: src, SignEventTypes: []string{"plain"}, Signer: func(ctx context.Context, b []byte) (string, error) { return "sig0", nil }}
	c.ce = append(c.ce, cef)
	reg("ce-0", cef)
	noFail := false
	newSink := func(format string) *sinkInfo {
		n := len(c.sinks)
		kind := rt.Pick(r, []string{"file", "writer", "channel", "file", "file", "writer", "channel", "devfull"})
		if noFail && kind == "devfull" {
			kind = "file" // the sinks that carry the gated composites must keep what they are given (membership oracle)
		}
		s := &sinkInfo{id: fmt.Sprintf("%s-%d", kind+"sink", n), kind: kind, format: format, afterEncrypt: true, encLayers: map[int]bool{}}
		switch kind {
		case "file":
			s.dir = filepath.Join(tmp, fmt.Sprintf("sink%d", n))
			s.fs = &eventlogger.FileSink{Path: s.dir, FileName: "out.log", Format: format, MaxBytes: rt.Pick(r, []int{0, 400, 2000}), TimestampOnlyOnRotate: r.Bool()}
			c.files = append(c.files, s.fs)
			reg(s.id, s.fs)
		case "devfull":
			// a FileSink every write of which fails (ENOSPC): its failure and retry path runs next to the other
			// senders and to the Reopen loops; it must never be reported complete
			s.fs = &eventlogger.FileSink{Path: "/dev", FileName: "full", Format: format}
			c.files = append(c.files, s.fs)
			reg(s.id, s.fs)
		case "writer":
			s.buf = &lockedBuf{}
			reg(s.id, &writer.Sink{Format: format, Writer: s.buf})
		case "channel":
			s.ch = make(chan *eventlogger.Event, 8)
			cs, err := channel.NewChannelSink(s.ch, time.Hour)
			must(err)
			reg(s.id, cs)
		}
		c.sinks[s.id] = s
		return s
	}
	var jsonSinks, ceSinks []*sinkInfo
	np := r.Range(1, 4)
	for p := 0; p < np; p++ {
		var ids []string
		nf := r.Range(0, 3)
		hasEnc := false
		nenc := 0
		for i := 0; i < nf; i++ {
			k := rt.Pick(r, []string{"filter", "encrypt", "encrypt"})
			id := rt.Pick(r, pool[k])
			ids = append(ids, id)
			if k == "encrypt" {
				hasEnc = true
				nenc++
			}
		}
		// formatter section: one or two formatter-ish nodes; the last decides the sink's format
		fm := rt.Pick(r, []string{"jsonfmt-0", "jsonff-0", "ce-0"})
		if r.Intn(3) == 0 {
			first := rt.Pick(r, []string{"jsonfmt-0", "jsonff-0", "ce-0"})
			ids = append(ids, first)
			if r.Intn(2) == 0 {
				// a filter-ish node between two formatters (formatter not at the root, filters after formatters)
				ids = append(ids, rt.Pick(r, pool["filter"]))
			}
		}
		ids = append(ids, fm)
		format := "json"
		if fm == "ce-0" {
			format = string(cloudevents.FormatJSON)
		}
		var s *sinkInfo
		cand := jsonSinks
		if format != "json" {
			cand = ceSinks
		}
		if len(cand) > 0 && r.Intn(2) == 0 {
			s = rt.Pick(r, cand) // shared sink
		} else {
			s = newSink(format)
			if format == "json" {
				jsonSinks = append(jsonSinks, s)
			} else {
				ceSinks = append(ceSinks, s)
			}
		}
		if !hasEnc {
			s.afterEncrypt = false
		} else {
			// the encrypt filter must come before the node that produced the sink's format
			encPos, fmtPos := -1, len(ids)-1
			for i, id := range ids {
				if strings.HasPrefix(id, "encrypt") && encPos < 0 {
					encPos = i
				}
			}
			// any formatter of the same format before the encrypt filter would have formatted plaintext,
			// but the last formatter overwrites that format; only require encrypt before the last one
			if encPos > fmtPos {
				s.afterEncrypt = false
			}
		}
		s.encLayers[nenc] = true
		ids = append(ids, s.id)
		must(b.RegisterPipeline(eventlogger.Pipeline{PipelineID: eventlogger.PipelineID(fmt.Sprintf("p%d", p)), EventType: "plain", NodeIDs: toIDs(ids)}))
		c.desc = append(c.desc, fmt.Sprintf("plain/p%d: %v", p, ids))
		for i := 0; i+1 < len(ids); i++ {
			c.pairs[kindOfNode(ids[i])+">"+kindOfNode(ids[i+1])] = true
		}
	}
	// gated pipeline
	// expiry during the concurrent sends in two thirds of the compositions (real clock; no verdict depends on it)
	gf := &gated.Filter{Broker: b, Expiration: rt.Pick(r, []time.Duration{time.Hour, 150 * time.Microsecond, 2 * time.Millisecond})}
	c.gatedSinks = []*sinkInfo{}
	reg("gated-0", gf)
	noFail = true
	gs := newSink("json")
	must(b.RegisterPipeline(eventlogger.Pipeline{PipelineID: "pg", EventType: "gated", NodeIDs: toIDs([]string{"gated-0", "jsonfmt-0", gs.id})}))
	cs := newSink("json")
	must(b.RegisterPipeline(eventlogger.Pipeline{PipelineID: "pc", EventType: "gated-composite", NodeIDs: toIDs([]string{"jsonff-0", cs.id})}))
	gs.afterEncrypt, cs.afterEncrypt = false, false
	c.gatedSinks = append(c.gatedSinks, gs, cs)
	c.desc = append(c.desc, fmt.Sprintf("gated expiration %v", gf.Expiration))
	c.desc = append(c.desc, fmt.Sprintf("gated/pg: [gated-0 jsonfmt-0 %s]", gs.id), fmt.Sprintf("gated-composite/pc: [jsonff-0 %s]", cs.id))
	c.pairs["gated>jsonfmt"] = true
	c.stockGate = &gated.Filter{Broker: b, Expiration: rt.Pick(r, []time.Duration{time.Hour, 150 * time.Microsecond, 2 * time.Millisecond})}
	reg("gated-1", c.stockGate)
	c.stockBufs = []*lockedBuf{{}, {}}
	reg("gsw-0", &writer.Sink{Format: "json", Writer: c.stockBufs[0]})
	reg("gsw-1", &writer.Sink{Format: "json", Writer: c.stockBufs[1]})
	must(b.RegisterPipeline(eventlogger.Pipeline{PipelineID: "ps1", EventType: "gated-stock", NodeIDs: toIDs([]string{"gated-1", "jsonfmt-0", "gsw-0"})}))
	must(b.RegisterPipeline(eventlogger.Pipeline{PipelineID: "ps2", EventType: "gated-stock", NodeIDs: toIDs([]string{"jsonfmt-0", "gsw-1"})}))
	c.desc = append(c.desc, fmt.Sprintf("gated-stock/ps1: [gated-1 jsonfmt-0 gsw-0] (expiration %v)", c.stockGate.Expiration), "gated-stock/ps2: [jsonfmt-0 gsw-1]")
	return c
}

func toIDs(ids []string) []eventlogger.NodeID {
	out := make([]eventlogger.NodeID, len(ids))
	for i, s := range ids {
		out[i] = eventlogger.NodeID(s)
	}
	return out
}

type stockRec struct {
	p    *gated.Payload
	want map[string]interface{}
}

// gatedP composes to type "gated-composite".
type gatedP struct {
	gated.Payload
}

func (g *gatedP) ComposeFrom(events []*eventlogger.Event) (eventlogger.EventType, interface{}, error) {
	var ids []string
	for _, e := range events {
		if p, ok := e.Payload.(*gatedP); ok {
			ids = append(ids, fmt.Sprint(p.Header["n"]))
		}
	}
	return "gated-composite", map[string]interface{}{"ID": "composite-" + strings.Join(ids, "+"), "members": ids}, nil
}

func extractID(doc map[string]interface{}, format string) string {
	var p interface{}
	if format == "json" {
		p = doc["payload"]
	} else {
		p = doc["data"]
	}
	if l, ok := p.([]interface{}); ok && len(l) == 1 {
		p = l[0]
	}
	if m, ok := p.(map[string]interface{}); ok {
		if id, ok := m["ID"].(string); ok {
			return id
		}
		if id, ok := m["id"].(string); ok {
			return id
		}
	}
	return ""
}

func TestC19(t *testing.T) {
	run := rt.Start(t, "C19")
	defer run.Finish()
	r := run.Rand()
	ncomp := run.N(36, 900)
	ctx := context.Background()
	for ci := 0; ci < ncomp && !run.Stop(); ci++ {
		cr := r.Fork()
		tmp, _ := os.MkdirTemp("", "stock")
		c := build(cr, tmp)
		nsend, nev := cr.Range(2, 8), cr.Range(40, 120)
		run.Progress("C19 composition %d %v senders=%d events=%d", ci, c.desc, nsend, nev)
		// channel consumers
		var dwg sync.WaitGroup
		stopDrain := make(chan struct{})
		for _, s := range c.sinks {
			if s.kind != "channel" {
				continue
			}
			dwg.Add(1)
			go func(s *sinkInfo) {
				defer dwg.Done()
				count := func(e *eventlogger.Event) {
					id := ""
					switch p := e.Payload.(type) {
					case *plainPayload:
						id = p.ID
					case []*plainPayload:
						if len(p) == 1 {
							id = p[0].ID
						}
					case *rotPayload:
						id = p.ID
					case map[string]interface{}:
						id, _ = p["ID"].(string)
						if ms, ok := p["members"].([]string); ok {
							s.memMu.Lock()
							s.members = append(s.members, append([]string(nil), ms...))
							s.memMu.Unlock()
						}
					}
					v, _ := s.got.LoadOrStore(id, new(int64))
					atomic.AddInt64(v.(*int64), 1)
				}
				for {
					select {
					case e := <-s.ch:
						count(e)
					case <-stopDrain:
						for {
							select {
							case e := <-s.ch:
								count(e)
							default:
								return
							}
						}
					}
				}
			}(s)
		}
		// expected lines per (sink, event id) from the Status of every Send
		var expMu sync.Mutex
		expect := map[string]map[string]int{}
		note := func(st eventlogger.Status, id string) {
			expMu.Lock()
			for _, sid := range st.CompleteSinks() {
				if expect[string(sid)] == nil {
					expect[string(sid)] = map[string]int{}
				}
				expect[string(sid)][id]++
			}
			expMu.Unlock()
		}
		nctl := 5
		bar := rt.NewBarrier(nsend + nctl)
		var wg sync.WaitGroup
		var stop int32
		var sendErrs int64
		canaries := make([][]string, nsend)
		var gatedMu sync.Mutex
		var gatedSent []string
		var gatedTrouble int64
		stockSent := make([][]stockRec, nsend)
		for s := 0; s < nsend; s++ {
			wg.Add(1)
			sr := cr.Fork()
			go func(s int) {
				defer wg.Done()
				bar.Wait()
				for n := 0; n < nev; n++ {
					if sr.Intn(6) == 0 {
						// the library's own gated payload, with headers and details: the gating pipeline composes
						// the group while the other pipeline formats the same payloads
						id := fmt.Sprintf("sg%d-%d", s, n)
						hdr := map[string]interface{}{"n": id, fmt.Sprintf("k%d", sr.Intn(3)): id}
						want := map[string]interface{}{}
						for k, v := range hdr {
							want[k] = v
						}
						sp := &gated.Payload{ID: fmt.Sprintf("sgrp%d", sr.Intn(3)), Flush: sr.Intn(4) == 0, Header: hdr, Detail: map[string]interface{}{"d": id}}
						if _, err := c.b.Send(ctx, "gated-stock", sp); err != nil {
							atomic.AddInt64(&sendErrs, 1)
						}
						stockSent[s] = append(stockSent[s], stockRec{sp, want})
						continue
					}
					if sr.Intn(5) == 0 {
						id := fmt.Sprintf("g%d-%d", s, n)
						st, err := c.b.Send(ctx, "gated", &gatedP{gated.Payload{ID: fmt.Sprintf("grp%d", sr.Intn(3)), Flush: sr.Intn(4) == 0, Header: map[string]interface{}{"n": id}}})
						if err != nil {
							atomic.AddInt64(&sendErrs, 1)
						}
						if err != nil || len(st.Warnings) > 0 {
							atomic.AddInt64(&gatedTrouble, 1)
						}
						gatedMu.Lock()
						gatedSent = append(gatedSent, id)
						gatedMu.Unlock()
						continue
					}
					id := fmt.Sprintf("e%d-%d", s, n)
					sec, sens := fmt.Sprintf("SECRETCANARY-%s-x", id), fmt.Sprintf("SENSCANARY-%s-x", id)
					canaries[s] = append(canaries[s], sec, sens)
					var payload interface{} = &plainPayload{ID: id, Secret: sec, Sens: sens, Hm: fmt.Sprintf("HMCANARY-%s-x", id), Pub: "pub-" + id, N: n}
					if sr.Intn(5) == 0 {
						// a slice payload: the pipelines share its backing array unless a node copies it
						payload = []*plainPayload{payload.(*plainPayload)}
					}
					st, err := c.b.Send(ctx, "plain", payload)
					if err != nil {
						atomic.AddInt64(&sendErrs, 1)
					}
					note(st, id)
					if sr.Intn(4) == 0 {
						runtime.Gosched()
					}
				}
			}(s)
		}
		var cwg sync.WaitGroup
		ctl := func(f func(k int)) {
			cwg.Add(1)
			go func() {
				defer cwg.Done()
				bar.Wait()
				for k := 0; atomic.LoadInt32(&stop) == 0; k++ {
					f(k)
					runtime.Gosched()
					time.Sleep(30 * time.Microsecond)
				}
			}()
		}
		ctl(func(k int) { c.b.Reopen(ctx) })
		ctl(func(k int) {
			for _, f := range c.files {
				f.Reopen()
			}
		})
		ctl(func(k int) {
			key := rt.Mix(uint64(ci), uint64(k))
			kb := rt.NewRand(key).Bytes(32)
			c.addKey(kb, fmt.Sprintf("s%d", k))
			for _, ef := range c.enc {
				ef.Rotate(encrypt.WithWrapper(cryp.NewWrapper(kb, fmt.Sprintf("r%d", k))), encrypt.WithSalt([]byte(fmt.Sprintf("s%d", k))))
			}
		})
		ctl(func(k int) {
			for _, f := range c.ce {
				kk := k
				f.Rotate(func(ctx context.Context, b []byte) (string, error) { return fmt.Sprintf("sig%d", kk), nil })
			}
			c.b.SetSuccessThreshold("plain", k%2)
			c.b.SetSuccessThresholdSinks("plain", 0)
		})
		ctl(func(k int) {
			// in-band rotation payload: consumed by the encrypt filters, formatted and written elsewhere
			kb := rt.NewRand(rt.Mix(uint64(ci)+7, uint64(k))).Bytes(32)
			c.addKey(kb, "rs")
			id := fmt.Sprintf("rot-%d", k)
			st, _ := c.b.Send(ctx, "plain", &rotPayload{ID: id, w: cryp.NewWrapper(kb, id), salt: []byte("rs")})
			note(st, id)
			time.Sleep(200 * time.Microsecond)
		})
		// the senders finish; if they do not, the goroutine dump decides (senders parked inside the library, in the
		// same place at two instants, while nothing they wait for can come: a deadlock between Sends and the
		// control calls)
		sendersDone := make(chan struct{})
		go func() { wg.Wait(); close(sendersDone) }()
		select {
		case <-sendersDone:
		case <-time.After(90 * time.Second):
			parkedAt := func() map[string]string {
				m := map[string]string{}
				for _, g := range rt.Goroutines() {
					if g.Has("TestC19.func") && g.Has("hashicorp/eventlogger") && g.Parked() {
						for _, fr := range g.Frames {
							if strings.Contains(fr, "hashicorp/eventlogger") {
								m[g.ID] = g.State + "@" + fr[strings.LastIndex(fr, "/")+1:]
								break
							}
						}
					}
				}
				return m
			}
			a := parkedAt()
			time.Sleep(2 * time.Second)
			bst := parkedAt()
			same := 0
			var where []string
			for id, st := range a {
				if bst[id] == st {
					same++
					where = append(where, st)
				}
			}
			select {
			case <-sendersDone:
				run.Inconclusive("the senders of a composition needed more than 90 s")
			default:
				if same > 0 {
					run.Violation("deadlock:senders", fmt.Sprintf("%d sender goroutine(s) are parked inside the library for good (%v) while Reopen / Rotate / threshold calls run next to them", same, where), map[string]any{"composition": c.desc})
				} else {
					run.Inconclusive("the senders of a composition did not finish within 90 s and are not provably parked")
				}
				atomic.StoreInt32(&stop, 1)
				return
			}
		}
		atomic.StoreInt32(&stop, 1)
		cwg.Wait()
		// flush what the gated filter still holds, then stop the consumers
		if _, err := c.b.RemovePipelineAndNodes(ctx, "gated", "pg"); err != nil {
			atomic.AddInt64(&gatedTrouble, 1)
		}
		c.stockGate.FlushAll(ctx)
		close(stopDrain)
		dwg.Wait()

		// ---- output integrity ------------------------------------------------------------------------
		wit := func(extra string) any {
			return map[string]any{"composition": c.desc, "senders": nsend, "events_per_sender": nev, "detail": extra}
		}
		// the library's gated payloads: what the sender handed in is what both pipelines worked on; neither
		// pipeline's work shows in the payload the other one (and the sender) holds
		nstock := 0
		for _, recs := range stockSent {
			for _, sr := range recs {
				nstock++
				if !reflect.DeepEqual(sr.p.Header, sr.want) {
					run.Violation("history-pattern:shared-payload-modified", fmt.Sprintf("a gated.Payload sent with header %v holds header %v after the run: one pipeline's composition wrote into the payload another pipeline formats", sr.want, sr.p.Header), wit(""))
					break
				}
			}
		}
		for bi, lb := range c.stockBufs {
			lb.mu.Lock()
			out := append([]byte(nil), lb.b.Bytes()...)
			lb.mu.Unlock()
			for _, line := range bytes.Split(bytes.TrimSuffix(out, []byte("\n")), []byte("\n")) {
				if len(line) > 0 && !json.Valid(line) {
					run.Violation("history-pattern:corrupt-output:gated-stock", fmt.Sprintf("sink gsw-%d holds a line that is not valid JSON: %.200q", bi, line), wit(""))
					break
				}
			}
		}
		run.Add("stock_gated_payloads_sent", nstock)
		c.keyMu.Lock()
		keys := append([][]byte(nil), c.keys...)
		hkeys := make([][]byte, len(c.cfgs))
		for k, cf := range c.cfgs {
			hkeys[k] = cryp.HmacKey(cf.key, cf.salt, nil)
		}
		c.keyMu.Unlock()
		lines := 0
		memberSeen := map[string]int{}
		for sid, s := range c.sinks {
			var data []byte
			switch s.kind {
			case "file":
				ents, _ := os.ReadDir(s.dir)
				for _, e := range ents {
					b, _ := os.ReadFile(filepath.Join(s.dir, e.Name()))
					if len(b) > 0 && b[len(b)-1] != '\n' {
						run.Violation("history-pattern:torn-output", fmt.Sprintf("file %s of sink %s does not end with a whole line", e.Name(), sid), wit(""))
					}
					data = append(data, b...)
				}
			case "writer":
				s.buf.mu.Lock()
				data = append(data, s.buf.b.Bytes()...)
				s.buf.mu.Unlock()
			case "devfull":
				for id, n := range expect[sid] {
					if n > 0 {
						run.Violation("history-pattern:sink-count", fmt.Sprintf("sink %s writes to a device that is always full, yet Send reported it complete %d times for %s", sid, n, id), wit(""))
						break
					}
				}
				continue
			case "channel":
				s.memMu.Lock()
				for _, ms := range s.members {
					for _, m := range ms {
						memberSeen[m]++
					}
				}
				s.memMu.Unlock()
				exp := expect[sid]
				s.got.Range(func(k, v any) bool {
					id, n := k.(string), int(atomic.LoadInt64(v.(*int64)))
					if strings.HasPrefix(id, "composite") {
						return true
					}
					if exp[id] != n {
						run.Violation("history-pattern:sink-count", fmt.Sprintf("channel sink %s received event %s %d times, Send reported it complete %d times", sid, id, n, exp[id]), wit(""))
					}
					return true
				})
				for id, n := range exp {
					v, ok := s.got.Load(id)
					if !ok || int(atomic.LoadInt64(v.(*int64))) != n {
						run.Violation("history-pattern:sink-count", fmt.Sprintf("channel sink %s was reported complete %d times for %s but did not receive it that often", sid, n, id), wit(""))
						break
					}
				}
				continue
			}
			got := map[string]int{}
			for _, ln := range bytes.Split(bytes.TrimSuffix(data, []byte("\n")), []byte("\n")) {
				if len(ln) == 0 {
					continue
				}
				lines++
				var doc map[string]interface{}
				if err := json.Unmarshal(ln, &doc); err != nil {
					run.Violation("history-pattern:corrupted-output", fmt.Sprintf("sink %s holds a line that is not a whole JSON document (%v): %.120q", sid, err, ln), wit(""))
					break
				}
				wantKey := "payload"
				if s.format != "json" {
					wantKey = "specversion"
				}
				if _, ok := doc[wantKey]; !ok {
					run.Violation("history-pattern:wrong-format", fmt.Sprintf("sink %s (format %s) holds a document of another format: %.120q", sid, s.format, ln), wit(""))
					break
				}
				id := extractID(doc, s.format)
				got[id]++
				if pm, ok := doc["payload"].(map[string]interface{}); ok {
					if ms, ok := pm["members"].([]interface{}); ok {
						for _, m := range ms {
							memberSeen[fmt.Sprint(m)]++
						}
					}
				}
				if s.afterEncrypt {
					// the digest must be the HMAC of the original under one (wrapper, salt) pair installed as a whole
					var pl interface{} = doc["payload"]
					if s.format != "json" {
						pl = doc["data"]
					}
					if l, ok := pl.([]interface{}); ok && len(l) == 1 {
						pl = l[0]
					}
					if p, ok := pl.(map[string]interface{}); ok {
						if v, _ := p["Hm"].(string); strings.HasPrefix(v, cryp.HmacPrefix) && strings.HasPrefix(id, "e") {
							orig := []byte(fmt.Sprintf("HMCANARY-%s-x", id))
							match := false
							for _, hk := range hkeys {
								if cryp.HmacWithKey(hk, orig) == v {
									match = true
									break
								}
							}
							switch {
							case match:
								run.Add("hmac_values_verified", 1)
							case len(s.encLayers) == 1 && s.encLayers[1]:
								run.Violation("history-pattern:torn-hmac-configuration", fmt.Sprintf("sink %s: the digest of %s is the HMAC of the original under none of the (wrapper, salt) pairs that were ever installed as a whole", sid, id), wit(v))
							default:
								run.Add("hmac_values_layered_not_judged", 1)
							}
						}
					}
				}
				if s.afterEncrypt && bytes.Contains(ln, []byte("CANARY")) {
					run.Violation("history-pattern:plaintext-after-encrypt", fmt.Sprintf("sink %s sits behind the encrypt filter but holds classified plaintext: %.160q", sid, ln), wit(""))
					break
				}
				if s.afterEncrypt && s.format == "json" {
					pl := doc["payload"]
					if l, ok := pl.([]interface{}); ok && len(l) == 1 {
						pl = l[0]
					}
					if p, ok := pl.(map[string]interface{}); ok {
						if v, _ := p["Sens"].(string); strings.HasPrefix(v, cryp.EncPrefix) {
							// a pipeline with several encrypt filters encrypts in layers
							okv := false
							cur := v
							for layer := 0; layer < 4 && !okv; layer++ {
								next := ""
								for _, k := range keys {
									if pt, err := cryp.Open(cur, k); err == nil {
										next = string(pt)
										break
									}
								}
								switch {
								case strings.HasPrefix(next, "SENSCANARY-"+id):
									okv = true
								case strings.HasPrefix(next, cryp.EncPrefix):
									cur = next
								default:
									layer = 4
								}
							}
							if !okv {
								run.Violation("history-pattern:undecryptable", fmt.Sprintf("sink %s: the encrypted value of %s opens under none of the wrappers that were ever in force", sid, id), wit(""))
							}
							run.Add("encrypted_values_verified", 1)
						}
					}
				}
			}
			if strings.HasPrefix(sid, "filesink") || strings.HasPrefix(sid, "writersink") {
				exp := expect[sid]
				for id, n := range exp {
					if got[id] != n {
						run.Violation("history-pattern:sink-count", fmt.Sprintf("sink %s holds %d lines for event %s, Send reported the sink complete %d times", sid, got[id], id, n), wit(""))
						break
					}
				}
				for id, n := range got {
					if strings.HasPrefix(id, "e") && exp[id] != n {
						run.Violation("history-pattern:sink-count", fmt.Sprintf("sink %s holds %d lines for event %s, Send reported the sink complete %d times", sid, n, id, exp[id]), wit(""))
						break
					}
				}
			}
		}
		// gated conservation: every gated event is a member of exactly one composite that reached a sink
		if atomic.LoadInt64(&gatedTrouble) == 0 {
			for _, id := range gatedSent {
				if n := memberSeen[id]; n != 1 {
					run.Violation("history-pattern:gated-member-count", fmt.Sprintf("gated event %s is a member of %d composites in the sinks' output (every Send succeeded without warnings, the filter was closed at the end)", id, n), wit(""))
					break
				}
			}
			run.Add("gated_members_checked", len(gatedSent))
		} else {
			run.Add("gated_conservation_not_judged", 1)
		}
		for p := range c.pairs {
			run.SetAdd("neighbour_kind_pairs", p)
		}
		run.Add("output_lines_checked", lines)
		run.Add("send_errors", int(atomic.LoadInt64(&sendErrs)))
		run.Eval(fmt.Sprintf("%v|%d|%d", c.desc, nsend, nev))
		if run.NeedSample() {
			run.Sample(map[string]any{"composition": c.desc, "senders": nsend, "events_per_sender": nev, "output_lines": lines})
		}
		os.RemoveAll(tmp)
	}
}
