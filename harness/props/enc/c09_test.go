package enc

import (
	"fmt"
	"reflect"
	"strings"
	"testing"
	"time"

	"github.com/hashicorp/eventlogger"
	wrapping "github.com/hashicorp/go-kms-wrapping/v2"

	"verifharness/internal/cryp"
	"verifharness/internal/rt"
)

// rotPayload is a key-rotation payload.
type rotPayload struct {
	w    wrapping.Wrapper
	salt []byte
	info []byte
	Note string
}

func (r *rotPayload) Wrapper() wrapping.Wrapper { return r.w }
func (r *rotPayload) HmacSalt() []byte          { return r.salt }
func (r *rotPayload) HmacInfo() []byte          { return r.info }

func shapeKey(sig string) string {
	return fmt.Sprintf("%x", rt.HashString(sig)&0xffffffff)
}

// checkC09 runs one generated payload through the real filter and decides the leak / fail-closed oracle.
// It returns the process result for C10's use.
func checkC09(run *rt.Run, seed uint64, cfg encCfg, judge bool) (*payloadCase, *eventlogger.Event, processResult) {
	pc := genPayload(seed, cfg)
	f := buildFilter(cfg)
	ev := &eventlogger.Event{Type: "t", CreatedAt: time.Unix(1_700_000_000, 0).UTC(), Formatted: map[string][]byte{"pre": []byte("formatted")}, Payload: pc.Payload}
	res := callProcess(f, ev)
	if !judge {
		return pc, ev, res
	}
	wit := func(extra string) any {
		out := "<nil>"
		if res.Out != nil {
			out = renderS(res.Out.Payload, false)
			if len(out) > 1500 {
				out = out[:1500] + "..."
			}
		}
		in := renderS(genPayload(seed, cfg).Payload, false)
		if len(in) > 1500 {
			in = in[:1500] + "..."
		}
		return map[string]any{"seed": seed, "config": cfg.String(), "root": pc.RootKind, "shape": pc.Sig, "input": in, "output": out, "err": fmt.Sprint(res.Err), "leaves": describeLeaves(pc.Leaves), "detail": extra}
	}
	if res.Panic != "" {
		run.Violation("shape:panic:"+pc.RootKind, "Process panicked: "+res.Panic, wit(""))
		return pc, ev, res
	}
	if res.Err != nil {
		if res.Out != nil {
			run.Violation("shape:error-with-event", "Process returned an error AND an event (not fail-closed)", wit(""))
		}
		// was a refusal justified?
		// (a pointer tag of a Taggable with a classification the filter does not know is refused as a
		// whole: failing closed on an unknown tag is accepted)
		justified := cfg.Wrapper != "present" || pc.BadTag || pc.MustFail || pc.OddTag
		for _, l := range pc.Leaves {
			if l.Exp == ErrOrProt {
				justified = true
			}
		}
		for _, o := range cfg.Overrides {
			if o == "bogus" {
				justified = true
			}
		}
		if !justified {
			run.Violation("shape:refused:"+pc.RootKind, "Process refused an in-grammar payload although no step can fail: "+res.Err.Error(), wit(""))
		}
		return pc, ev, res
	}
	if cfg.allNone() {
		return pc, ev, res
	}
	if res.Out == nil {
		run.Violation("shape:dropped", "Process returned (nil, nil) for an ordinary payload", wit(""))
		return pc, ev, res
	}
	var strs []string
	collectStrings(reflect.ValueOf(res.Out.Payload), &strs, 0)
	all := strings.Join(strs, "\x00")
	outV := reflect.ValueOf(res.Out.Payload)
	for _, l := range pc.Leaves {
		if l.Nil {
			continue
		}
		needs := l.Exp.protected() || l.Exp == ErrOrProt || (pc.MustFail && l.Exp != Keep && l.Exp != PlainAllowed && l.Exp != Either)
		if !needs {
			continue
		}
		if strings.Contains(all, l.Canary) {
			run.Violation("shape:leak:"+pc.RootKind+":"+leafKindOf(pc, l), fmt.Sprintf("plaintext of %s (%s) is readable in the forwarded event", pathString(l.Path), l.Exp), wit(""))
			return pc, ev, res
		}
		lv, err := walk(outV, l.Path)
		if err != nil {
			continue // shape changed: C10's subject; the canary scan above is the backstop here
		}
		got, ok := leafValue(lv)
		if !ok {
			continue
		}
		if why := verifyLeaf(l, got, baseKey, filterSalt, filterInfo); why != "" {
			run.Violation("shape:wrong-protection:"+l.Exp.String(), fmt.Sprintf("%s must be %s: %s", pathString(l.Path), l.Exp, why), wit(""))
			return pc, ev, res
		}
	}
	if pc.BadTag || pc.MustFail {
		// forwarded without error: acceptable only because nothing leaked (checked above)
		run.Add("fail_closed_cases_forwarded_protected", 1)
		if pc.BadTag {
			run.Violation("shape:bad-tag-forwarded", "a Taggable map carries a tag pointer that cannot be applied to it, yet Process returned no error and forwarded an event", wit(""))
		}
	}
	return pc, ev, res
}

func leafKindOf(pc *payloadCase, l leaf) string {
	if len(l.Path) == 0 {
		return "root"
	}
	ks := ""
	for _, s := range l.Path {
		ks += string(s.K)
	}
	if len(ks) > 6 {
		ks = ks[len(ks)-6:]
	}
	return ks
}

func TestC09(t *testing.T) {
	run := rt.Start(t, "C09")
	defer run.Finish()
	r := run.Rand()
	n := run.N(20000, 1000000)
	for i := 0; i < n && !run.Stop(); i++ {
		seed := r.Uint64()
		cfg := genCfgEnc(r)
		cfg.PtrCont = i%2 == 0
		if i%64 == 0 {
			run.Progress("C09 seed=%d cfg=%s", seed, cfg)
		}
		pc, _, res := checkC09(run, seed, cfg, true)
		prot := 0
		for _, l := range pc.Leaves {
			if l.Exp.protected() {
				prot++
			}
		}
		sig := ""
		if prot > 0 {
			sig = pc.Sig
		}
		run.Eval(sig)
		run.SetAdd("root_kinds", pc.RootKind)
		if res.Err != nil {
			run.Add("process_errors", 1)
		}
		run.Add("protected_leaves", prot)
		if run.NeedSample() && prot >= 3 && res.Err == nil && res.Out != nil {
			out := renderS(res.Out.Payload, false)
			if len(out) > 600 {
				out = out[:600] + "..."
			}
			run.Sample(map[string]any{"seed": seed, "config": cfg.String(), "shape": pc.Sig, "leaves": describeLeaves(pc.Leaves), "output": out})
		}
	}
	// the repository's own Taggable protobuf payload (structpb maps)
	c09Proto(run, r, run.N(2000, 60000))
	// rotation payloads are consumed, never forwarded: every override map over the three classes
	// (absent / none / redact / encrypt / hmac-sha256 each), with and without a wrapper
	opsv := []string{"absent", "", "redact", "encrypt", "hmac-sha256"}
	k := 0
	for _, po := range opsv {
		for _, so := range opsv {
			for _, co := range opsv {
				for _, wr := range []string{"present", "absent"} {
					k++
					if k%run.NBatch != run.Batch {
						continue
					}
					cfg := encCfg{Wrapper: wr, Overrides: map[string]string{}}
					for cl, o := range map[string]string{"public": po, "sensitive": so, "secret": co} {
						if o != "absent" {
							cfg.Overrides[cl] = o
						}
					}
					f := buildFilter(cfg)
					rp := &rotPayload{w: cryp.NewWrapper([]byte("ffffffffffffffffffffffffffffffff"), "new"), salt: []byte("s2"), info: []byte("i2"), Note: "CANARY-rotation"}
					ev := &eventlogger.Event{Type: "t", Payload: rp}
					res := callProcess(f, ev)
					run.Eval("rotation|" + cfg.String())
					if cfg.allNone() {
						continue // nothing is filtered at all: the event passes through untouched by configuration
					}
					if res.Panic != "" || res.Out != nil || res.Err != nil {
						run.Violation("shape:rotation-forwarded", fmt.Sprintf("a key-rotation payload must be consumed: out=%v err=%v panic=%s", res.Out != nil, res.Err, res.Panic), map[string]any{"config": cfg.String()})
						continue
					}
					// rotation payloads that rotate only the salt and/or info (no wrapper), or nothing at all, are
					// rotation payloads all the same
					for vi, rp2 := range []*rotPayload{{salt: []byte("s3"), Note: "CANARY-rotation"}, {info: []byte("i3"), Note: "CANARY-rotation"}, {salt: []byte{}, info: []byte{}, Note: "CANARY-rotation"}, {Note: "CANARY-rotation"}} {
						if res2 := callProcess(f, &eventlogger.Event{Type: "t", Payload: rp2}); res2.Panic != "" || res2.Out != nil || res2.Err != nil {
							run.Violation("shape:rotation-forwarded", fmt.Sprintf("a key-rotation payload without a wrapper (variant %d: salt=%q info=%q) must be consumed: out=%v err=%v panic=%s", vi, rp2.salt, rp2.info, res2.Out != nil, res2.Err, res2.Panic), map[string]any{"config": cfg.String()})
							break
						}
					}
					// and it must have taken effect: the next sensitive value is protected under the new wrapper
					if so == "absent" || so == "encrypt" {
						type sp struct {
							S string `class:"sensitive"`
						}
						r2 := callProcess(f, &eventlogger.Event{Type: "t", Payload: &sp{S: "after-rotation"}})
						if r2.Err != nil || r2.Out == nil {
							run.Violation("shape:rotation-not-applied", fmt.Sprintf("after a rotation payload a sensitive value cannot be encrypted: %v", r2.Err), map[string]any{"config": cfg.String()})
						} else if pt, err := cryp.Open(r2.Out.Payload.(*sp).S, []byte("ffffffffffffffffffffffffffffffff")); err != nil || string(pt) != "after-rotation" {
							run.Violation("shape:rotation-not-applied", "after a rotation payload the next event is not protected with the new wrapper", map[string]any{"config": cfg.String()})
						}
					}
				}
			}
		}
	}
}
