// Package enc holds the monitors for encrypt.Filter (C09 no plaintext leak / fails closed, C10 private
// copy and shape preservation, C16 cryptographic correctness across rotation).
package enc

import (
	"fmt"
	"reflect"
	"sort"
	"strings"
	"sync"
	"time"

	"github.com/hashicorp/eventlogger/filters/encrypt"
	"google.golang.org/protobuf/types/known/wrapperspb"

	"verifharness/internal/cryp"
	"verifharness/internal/rt"
)

// ---- expectations -------------------------------------------------------------------------------------

type Expect int

const (
	Keep         Expect = iota // exactly "public" or non-string: must come out unchanged
	ProtRedact                 // must be "[REDACTED]"
	ProtEncrypt                // must be "encrypted:" + blob that opens to the original
	ProtHmac                   // must be "hmac-sha256:" + the recomputed digest
	ProtAny                    // must be one of the three protected forms, canary absent
	Either                     // ambiguous by the statement (case variants of public, ...): nothing asserted
	PlainAllowed               // an override resolved the operation to none: nothing asserted
	ErrOrProt                  // bogus override: Process must fail or the value be protected
)

func (e Expect) String() string {
	return [...]string{"KEEP", "PROTECT(redact)", "PROTECT(encrypt)", "PROTECT(hmac)", "PROTECT(any)", "EITHER", "PLAIN-ALLOWED", "ERR-OR-PROTECT"}[e]
}

func (e Expect) protected() bool { return e >= ProtRedact && e <= ProtAny }

// encCfg is the filter configuration the reference classifier needs.
type encCfg struct {
	Overrides map[string]string // class -> op ("" none, redact, encrypt, hmac-sha256, bogus)
	Wrapper   string            // present absent failing
	FailAt    int
	Ignore    bool // IgnoreTypes = {*Ign}
	PtrCont   bool // Taggable maps may hold containers addressed by a pointer tag (C09 only: the container is replaced by one filtered value)
}

// Ign is a type the filter may be told to ignore (IgnoreTypes): values of it are exempt by
// configuration where the filter honours the setting, so its leaves are never asserted (EITHER);
// the input must stay untouched all the same.
type Ign struct {
	Note  string
	Level string `class:"secret"`
	Tags  []string
}

var tIgnPtr = reflect.TypeOf(&Ign{})

func (c encCfg) String() string {
	var ks []string
	for k, v := range c.Overrides {
		ks = append(ks, k+"->"+v)
	}
	sort.Strings(ks)
	return fmt.Sprintf("overrides=%v wrapper=%s failAt=%d ignoreTypes=%v ptrContainers=%v", ks, c.Wrapper, c.FailAt, c.Ignore, c.PtrCont)
}

func (c encCfg) allNone() bool {
	for _, cl := range []string{"public", "sensitive", "secret"} {
		def := map[string]string{"public": "", "sensitive": "encrypt", "secret": "redact"}[cl]
		op, ok := c.Overrides[cl]
		if !ok {
			op = def
		}
		if op != "" {
			return false
		}
	}
	return true
}

func opExpect(op string) Expect {
	switch op {
	case "":
		return PlainAllowed
	case "redact":
		return ProtRedact
	case "encrypt":
		return ProtEncrypt
	case "hmac-sha256":
		return ProtHmac
	}
	return ErrOrProt
}

// classify is the reference classifier, written from the README and the property statement.
func (c encCfg) classify(hasTag bool, class, op string) Expect {
	unclassified := func() Expect {
		if o, ok := c.Overrides["secret"]; ok && o == "" {
			return Either
		}
		return ProtAny
	}
	if !hasTag {
		return unclassified()
	}
	switch class {
	case "public":
		return Keep
	case "sensitive", "secret":
		if o, ok := c.Overrides[class]; ok {
			return opExpect(o)
		}
		switch strings.ToLower(op) {
		case "redact", "encrypt", "hmac-sha256":
			return opExpect(strings.ToLower(op))
		}
		if class == "sensitive" {
			return ProtEncrypt
		}
		return ProtRedact
	}
	if strings.EqualFold(class, "public") {
		return Either
	}
	return unclassified()
}

// weaken is applied to Taggable maps that sit inside an untagged map (the enclosing map's
// "everything is secret" rule and the inner tags both apply; either reading is accepted).
func weaken(e Expect) Expect {
	switch e {
	case Keep, PlainAllowed:
		return Either
	case ProtRedact, ProtEncrypt, ProtHmac:
		return ProtAny
	}
	return e
}

// ---- paths ------------------------------------------------------------------------------------------------

type pstep struct {
	K   byte // F field, P deref, I index, M map key, E interface elem
	I   int
	Key any
}

func pathString(p []pstep) string {
	var b strings.Builder
	for _, s := range p {
		switch s.K {
		case 'F':
			fmt.Fprintf(&b, ".F%d", s.I)
		case 'P':
			b.WriteString("*")
		case 'I':
			fmt.Fprintf(&b, "[%d]", s.I)
		case 'M':
			fmt.Fprintf(&b, "[%v]", s.Key)
		case 'E':
			b.WriteString("{}")
		case 'N':
			fmt.Fprintf(&b, ".%s", s.Key)
		}
	}
	return b.String()
}

// walk follows a path in v.
func walk(v reflect.Value, p []pstep) (reflect.Value, error) {
	for i, s := range p {
		if !v.IsValid() {
			return v, fmt.Errorf("invalid value at step %d of %s", i, pathString(p))
		}
		switch s.K {
		case 'F':
			if v.Kind() != reflect.Struct || s.I >= v.NumField() {
				return v, fmt.Errorf("not a struct with field %d at step %d of %s (kind %s)", s.I, i, pathString(p), v.Kind())
			}
			v = v.Field(s.I)
		case 'N':
			if v.Kind() != reflect.Struct {
				return v, fmt.Errorf("not a struct at step %d of %s (kind %s)", i, pathString(p), v.Kind())
			}
			v = v.FieldByName(s.Key.(string))
		case 'P':
			if v.Kind() != reflect.Ptr || v.IsNil() {
				return v, fmt.Errorf("not a non-nil pointer at step %d of %s (kind %s)", i, pathString(p), v.Kind())
			}
			v = v.Elem()
		case 'E':
			if v.Kind() != reflect.Interface || v.IsNil() {
				return v, fmt.Errorf("not a non-nil interface at step %d of %s (kind %s)", i, pathString(p), v.Kind())
			}
			v = v.Elem()
		case 'I':
			if (v.Kind() != reflect.Slice && v.Kind() != reflect.Array) || s.I >= v.Len() {
				return v, fmt.Errorf("no index %d at step %d of %s", s.I, i, pathString(p))
			}
			v = v.Index(s.I)
		case 'M':
			if v.Kind() != reflect.Map {
				return v, fmt.Errorf("not a map at step %d of %s (kind %s)", i, pathString(p), v.Kind())
			}
			e := v.MapIndex(reflect.ValueOf(s.Key))
			if !e.IsValid() {
				return v, fmt.Errorf("map key %v missing at step %d of %s", s.Key, i, pathString(p))
			}
			v = e
		}
	}
	return v, nil
}

type leaf struct {
	Path    []pstep
	Canary  string
	IsBytes bool
	Exp     Expect
	Nil     bool // a nil []byte: nothing to protect
}

// ---- hand-written Taggable types --------------------------------------------------------------------------

var tagRegistry sync.Map // id -> []encrypt.PointerTag

// TMap is a Taggable map; its tags come from a registry keyed by the public "__id" entry, so that
// the filter's deep copy still finds them.
type TMap map[string]interface{}

func (t TMap) Tags() ([]encrypt.PointerTag, error) {
	id, _ := t["__id"].(string)
	v, ok := tagRegistry.Load(id)
	if !ok {
		return nil, nil
	}
	return v.([]encrypt.PointerTag), nil
}

// TStruct is a Taggable struct with a tagged map field plus class-tagged fields.
type TStruct struct {
	ID    string `class:"public"`
	Attrs map[string]interface{}
	Name  string `class:"sensitive"`
	Note  string
	Pub   string `class:"public"`
}

func (t *TStruct) Tags() ([]encrypt.PointerTag, error) {
	v, ok := tagRegistry.Load(t.ID)
	if !ok {
		return nil, nil
	}
	return v.([]encrypt.PointerTag), nil
}

// ---- generator ----------------------------------------------------------------------------------------------

var (
	tString  = reflect.TypeOf("")
	tBytes   = reflect.TypeOf([]byte(nil))
	tStrings = reflect.TypeOf([]string(nil))
	tBytess  = reflect.TypeOf([][]byte(nil))
	tWStr    = reflect.TypeOf(wrapperspb.StringValue{})
	tWBytes  = reflect.TypeOf(wrapperspb.BytesValue{})
	tIface   = reflect.TypeOf((*interface{})(nil)).Elem()
	tTime    = reflect.TypeOf(time.Time{})
	tTMap    = reflect.TypeOf(TMap{})
	tTStruct = reflect.TypeOf(TStruct{})
)

var classes = []string{"public", "sensitive", "secret", "sensitive", "secret", "", "bogus", "Public", "SECRET", "Sensitive"}
var ops = []string{"", "", "", "redact", "encrypt", "hmac-sha256", "REDACT", "Encrypt", "bogus"}

type spec struct {
	kind   string // string bytes strings bytess wstr wbytes int bool float time struct ptr slice map imap tmap tstruct nilptr niliface islice
	hasTag bool
	class  string
	op     string
	names  []string
	fields []*spec
	elem   *spec
	keyInt bool
	typ    reflect.Type
}

type gen struct {
	r      *rt.Rand
	cfg    encCfg
	leaves []leaf
	n      int
	seed   uint64
	noNil  bool // do not generate nil pointers (root []*string: a nil element is refused with an error, see DESIGN)
	badTag bool // a malformed tag pointer was generated: Process must fail (or protect)
	hasTM  bool
	oddTag bool // a pointer tag carries a classification other than public/sensitive/secret
}

func (g *gen) canary() string {
	g.n++
	c := fmt.Sprintf("CANARY%xq%dz", g.seed&0xffffff, g.n)
	// plaintext that merely looks like the filter's own output is plaintext all the same
	switch g.r.Intn(24) {
	case 0:
		return cryp.EncPrefix + c
	case 1:
		return cryp.HmacPrefix + c
	case 2:
		return cryp.Redacted + c
	}
	return c
}

func leafKinds() []string {
	return []string{"string", "string", "bytes", "strings", "bytess", "wstr", "pwstr", "wbytes", "pwbytes", "pstring", "pbytes", "pstrings"}
}

func (s *spec) sig() string {
	var b strings.Builder
	b.WriteString(s.kind)
	if s.hasTag {
		b.WriteString("`" + s.class + "," + s.op + "`")
	}
	if len(s.fields) > 0 {
		b.WriteString("{")
		for _, f := range s.fields {
			b.WriteString(f.sig() + ";")
		}
		b.WriteString("}")
	}
	if s.elem != nil {
		b.WriteString("<" + s.elem.sig() + ">")
	}
	if s.keyInt {
		b.WriteString("#int")
	}
	return b.String()
}

func leafType(kind string) reflect.Type {
	switch kind {
	case "string":
		return tString
	case "bytes":
		return tBytes
	case "strings":
		return tStrings
	case "bytess":
		return tBytess
	case "wstr":
		return tWStr
	case "wbytes":
		return tWBytes
	case "pwstr":
		return reflect.PtrTo(tWStr)
	case "pwbytes":
		return reflect.PtrTo(tWBytes)
	case "pstring":
		return reflect.PtrTo(tString)
	case "pbytes":
		return reflect.PtrTo(tBytes)
	case "pstrings":
		return reflect.PtrTo(tStrings)
	case "int":
		return reflect.TypeOf(0)
	case "bool":
		return reflect.TypeOf(false)
	case "float":
		return reflect.TypeOf(0.0)
	case "time":
		return tTime
	}
	panic("leafType " + kind)
}

// genStruct draws a struct type.
func (g *gen) genStruct(depth int) *spec {
	s := &spec{kind: "struct"}
	nf := g.r.Range(1, 5)
	var sf []reflect.StructField
	for i := 0; i < nf; i++ {
		f := g.genField(depth)
		s.fields = append(s.fields, f)
		name := fmt.Sprintf("F%d", i)
		s.names = append(s.names, name)
		tag := reflect.StructTag("")
		if f.hasTag {
			t := f.class
			if f.op != "" || g.r.Intn(6) == 0 {
				t += "," + f.op
			}
			tag = reflect.StructTag(fmt.Sprintf(`class:"%s"`, t))
		}
		sf = append(sf, reflect.StructField{Name: name, Type: f.typ, Tag: tag})
	}
	s.typ = reflect.StructOf(sf)
	return s
}

func (g *gen) genField(depth int) *spec {
	x := g.r.Intn(100)
	switch {
	case x < 50 || depth <= 0 && x < 85:
		k := rt.Pick(g.r, leafKinds())
		f := &spec{kind: k, typ: leafType(k)}
		if g.r.Intn(10) < 7 {
			f.hasTag, f.class, f.op = true, rt.Pick(g.r, classes), rt.Pick(g.r, ops)
		}
		return f
	case x < 56 && g.cfg.Ignore:
		return &spec{kind: "ign", typ: tIgnPtr}
	case x < 60 || depth <= 0:
		k := rt.Pick(g.r, []string{"int", "bool", "float", "time", "nilptr", "niliface"})
		switch k {
		case "nilptr":
			return &spec{kind: k, typ: reflect.PtrTo(reflect.StructOf([]reflect.StructField{{Name: "X", Type: tString}}))}
		case "niliface":
			return &spec{kind: k, typ: tIface}
		}
		return &spec{kind: k, typ: leafType(k)}
	}
	return g.genContainer(depth-1, false)
}

// genContainer draws S | *S | []S | []*S | M | *M | []M | TM | *TM | []TM | *TS.
func (g *gen) genContainer(depth int, root bool) *spec {
	switch k := rt.Pick(g.r, []string{"S", "pS", "sS", "spS", "M", "pM", "sM", "TM", "pTM", "sTM", "pTS", "S", "pS", "M"}); k {
	case "S":
		if root {
			return g.wrapPtr(g.genStruct(depth)) // a root struct by value is outside the grammar
		}
		return g.genStruct(depth)
	case "pS":
		return g.wrapPtr(g.genStruct(depth))
	case "sS":
		return g.wrapSlice(g.genStruct(depth))
	case "spS":
		return g.wrapSlice(g.wrapPtr(g.genStruct(depth)))
	case "M":
		return g.genMap(depth)
	case "pM":
		return g.wrapPtr(g.genMap(depth))
	case "sM":
		return g.wrapSlice(g.genMap(depth))
	case "TM":
		return &spec{kind: "tmap", typ: tTMap}
	case "pTM":
		return g.wrapPtr(&spec{kind: "tmap", typ: tTMap})
	case "sTM":
		return g.wrapSlice(&spec{kind: "tmap", typ: tTMap})
	default:
		return g.wrapPtr(&spec{kind: "tstruct", typ: tTStruct})
	}
}

func (g *gen) wrapPtr(e *spec) *spec { return &spec{kind: "ptr", elem: e, typ: reflect.PtrTo(e.typ)} }
func (g *gen) wrapSlice(e *spec) *spec {
	return &spec{kind: "slice", elem: e, typ: reflect.SliceOf(e.typ)}
}

// genMap draws map[string]V | map[int]V | map[string]interface{}.
func (g *gen) genMap(depth int) *spec {
	if g.r.Intn(2) == 0 {
		return &spec{kind: "imap", typ: reflect.MapOf(tString, tIface)}
	}
	var v *spec
	x := g.r.Intn(100)
	switch {
	case x < 55 || depth <= 0:
		k := rt.Pick(g.r, []string{"string", "bytes", "strings", "bytess", "wstr", "pwstr", "wbytes", "pwbytes"})
		v = &spec{kind: k, typ: leafType(k)}
	case x < 70:
		v = g.genStruct(depth - 1)
	case x < 80:
		v = g.wrapPtr(g.genStruct(depth - 1))
	case x < 86:
		v = g.wrapSlice(g.genStruct(depth - 1))
	case x < 92:
		v = g.genMap(depth - 1)
	case x < 96:
		v = g.wrapSlice(g.genMap(depth - 1))
	default:
		v = &spec{kind: "tmap", typ: tTMap}
	}
	m := &spec{kind: "map", elem: v, keyInt: g.r.Intn(5) == 0}
	kt := tString
	if m.keyInt {
		kt = reflect.TypeOf(0)
	}
	m.typ = reflect.MapOf(kt, v.typ)
	return m
}

func cp(p []pstep, s pstep) []pstep {
	out := make([]pstep, len(p)+1)
	copy(out, p)
	out[len(p)] = s
	return out
}

// inst builds a value of spec s. exp is the expectation inherited by leaves (struct fields compute
// their own from the tag); untagged is true inside untagged maps.
func (g *gen) inst(s *spec, path []pstep, exp Expect, untagged bool, depth int) reflect.Value {
	v := reflect.New(s.typ).Elem()
	switch s.kind {
	case "string":
		c := g.canary()
		v.SetString(c)
		g.leaves = append(g.leaves, leaf{Path: path, Canary: c, Exp: exp})
	case "bytes":
		if g.r.Intn(12) == 0 {
			g.leaves = append(g.leaves, leaf{Path: path, IsBytes: true, Exp: exp, Nil: true})
			return v
		}
		c := g.canary()
		v.SetBytes([]byte(c))
		g.leaves = append(g.leaves, leaf{Path: path, Canary: c, IsBytes: true, Exp: exp})
	case "strings":
		n := g.r.Intn(4)
		sl := reflect.MakeSlice(s.typ, n, n)
		for i := 0; i < n; i++ {
			c := g.canary()
			sl.Index(i).SetString(c)
			g.leaves = append(g.leaves, leaf{Path: cp(path, pstep{K: 'I', I: i}), Canary: c, Exp: exp})
		}
		v.Set(sl)
	case "bytess":
		n := g.r.Intn(4)
		sl := reflect.MakeSlice(s.typ, n, n)
		for i := 0; i < n; i++ {
			c := g.canary()
			sl.Index(i).SetBytes([]byte(c))
			g.leaves = append(g.leaves, leaf{Path: cp(path, pstep{K: 'I', I: i}), Canary: c, IsBytes: true, Exp: exp})
		}
		v.Set(sl)
	case "wstr":
		c := g.canary()
		v.FieldByName("Value").SetString(c)
		g.leaves = append(g.leaves, leaf{Path: cp(path, pstep{K: 'N', Key: "Value"}), Canary: c, Exp: exp})
	case "wbytes":
		c := g.canary()
		v.FieldByName("Value").SetBytes([]byte(c))
		g.leaves = append(g.leaves, leaf{Path: cp(path, pstep{K: 'N', Key: "Value"}), Canary: c, IsBytes: true, Exp: exp})
	case "pwstr", "pwbytes", "pstring", "pbytes", "pstrings":
		inner := &spec{kind: strings.TrimPrefix(s.kind, "p"), typ: s.typ.Elem()}
		if g.r.Intn(10) == 0 && !g.noNil && len(path) > 0 && path[len(path)-1].K != 'E' {
			return v // nil pointer
		}
		p := reflect.New(s.typ.Elem())
		p.Elem().Set(g.inst(inner, cp(path, pstep{K: 'P'}), exp, untagged, depth))
		v.Set(p)
	case "int":
		v.SetInt(int64(g.r.Intn(1000)))
	case "bool":
		v.SetBool(g.r.Bool())
	case "float":
		v.SetFloat(float64(g.r.Intn(1000)) / 8)
	case "time":
		v.Set(reflect.ValueOf(time.Unix(1_600_000_000+int64(g.r.Intn(1000000)), 0).UTC()))
	case "nilptr", "niliface":
	case "ign":
		ig := &Ign{Note: g.canary(), Level: g.canary(), Tags: []string{g.canary()}}
		g.leaves = append(g.leaves,
			leaf{Path: cp(cp(path, pstep{K: 'P'}), pstep{K: 'N', Key: "Note"}), Canary: ig.Note, Exp: Either},
			leaf{Path: cp(cp(path, pstep{K: 'P'}), pstep{K: 'N', Key: "Level"}), Canary: ig.Level, Exp: Either},
			leaf{Path: cp(cp(cp(path, pstep{K: 'P'}), pstep{K: 'N', Key: "Tags"}), pstep{K: 'I', I: 0}), Canary: ig.Tags[0], Exp: Either})
		v.Set(reflect.ValueOf(ig))
	case "struct":
		for i, f := range s.fields {
			fe := exp
			switch f.kind {
			case "string", "bytes", "strings", "bytess", "wstr", "wbytes", "pwstr", "pwbytes", "pstring", "pbytes", "pstrings":
				fe = g.cfg.classify(f.hasTag, f.class, f.op)
			}
			v.Field(i).Set(g.inst(f, cp(path, pstep{K: 'F', I: i}), fe, false, depth))
		}
	case "ptr":
		// (no typed nil pointer directly inside an interface{}: the deep copy the filter relies on turns it
		// into an untyped nil, which is not something the filter decides)
		if g.r.Intn(12) == 0 && len(path) > 0 && path[len(path)-1].K != 'E' {
			return v
		}
		p := reflect.New(s.elem.typ)
		p.Elem().Set(g.inst(s.elem, cp(path, pstep{K: 'P'}), exp, untagged, depth))
		v.Set(p)
	case "slice":
		n := g.r.Range(0, 3)
		if len(path) == 0 {
			n = g.r.Range(1, 3)
		}
		sl := reflect.MakeSlice(s.typ, n, n)
		for i := 0; i < n; i++ {
			sl.Index(i).Set(g.inst(s.elem, cp(path, pstep{K: 'I', I: i}), exp, untagged, depth))
		}
		v.Set(sl)
	case "map":
		n := g.r.Range(0, 3)
		m := reflect.MakeMapWithSize(s.typ, n)
		for i := 0; i < n; i++ {
			var key any = fmt.Sprintf("k%d", i)
			if s.keyInt {
				key = i + 1
			}
			e := g.inst(s.elem, cp(path, pstep{K: 'M', Key: key}), g.cfg.classify(false, "", ""), true, depth)
			m.SetMapIndex(reflect.ValueOf(key), e)
		}
		v.Set(m)
	case "imap":
		n := g.r.Range(0, 4)
		m := reflect.MakeMapWithSize(s.typ, n)
		for i := 0; i < n; i++ {
			key := fmt.Sprintf("k%d", i)
			p := cp(path, pstep{K: 'M', Key: key})
			dyn := g.genDyn(depth)
			if dyn == nil {
				m.SetMapIndex(reflect.ValueOf(key), reflect.Zero(tIface))
				continue
			}
			e := g.inst(dyn, cp(p, pstep{K: 'E'}), g.cfg.classify(false, "", ""), true, depth)
			m.SetMapIndex(reflect.ValueOf(key), e)
		}
		v.Set(m)
	case "tmap":
		v.Set(g.instTMap(path, untagged))
	case "tstruct":
		v.Set(g.instTStruct(path))
	}
	return v
}

// genDyn draws the dynamic value of an interface{} map entry: any V, a NonString or nil.
func (g *gen) genDyn(depth int) *spec {
	x := g.r.Intn(100)
	switch {
	case x < 6:
		return nil
	case x < 16:
		k := rt.Pick(g.r, []string{"int", "bool", "float", "time"})
		return &spec{kind: k, typ: leafType(k)}
	case x < 24 && g.cfg.Ignore:
		return &spec{kind: "ign", typ: tIgnPtr}
	case x < 60 || depth <= 0:
		k := rt.Pick(g.r, []string{"string", "string", "bytes", "strings", "bytess", "wstr", "pwstr", "wbytes", "pwbytes"})
		return &spec{kind: k, typ: leafType(k)}
	case x < 70:
		return g.genStruct(depth - 1)
	case x < 80:
		return g.wrapPtr(g.genStruct(depth - 1))
	case x < 85:
		return g.wrapSlice(g.genStruct(depth - 1))
	case x < 92:
		return g.genMap(depth - 1)
	case x < 96:
		return g.wrapSlice(g.genMap(depth - 1))
	}
	return &spec{kind: "tmap", typ: tTMap}
}

func (g *gen) pointerTag(ptr string) (encrypt.PointerTag, Expect) {
	class, op := rt.Pick(g.r, classes), rt.Pick(g.r, ops)
	if class != "public" && class != "sensitive" && class != "secret" {
		g.oddTag = true
	}
	return encrypt.PointerTag{Pointer: ptr, Classification: encrypt.DataClassification(class), Filter: encrypt.FilterOperation(op)}, g.cfg.classify(true, class, op)
}

func (g *gen) instTMap(path []pstep, untagged bool) reflect.Value {
	g.hasTM = true
	id := g.canary() + "-id"
	m := TMap{"__id": id}
	var tags []encrypt.PointerTag
	n := g.r.Range(0, 4)
	adj := func(e Expect) Expect {
		if untagged {
			return weaken(e)
		}
		return e
	}
	if g.r.Intn(4) > 0 {
		tags = append(tags, encrypt.PointerTag{Pointer: "/__id", Classification: encrypt.PublicClassification})
	} else {
		// no tag for the id entry: it is an unclassified value like any other, and the map may end up with no
		// pointer tag that addresses one of its own keys at all (only nested ones, absent ones, or none)
		g.leaves = append(g.leaves, leaf{Path: cp(cp(path, pstep{K: 'M', Key: "__id"}), pstep{K: 'E'}), Canary: id, Exp: adj(g.cfg.classify(false, "", ""))})
	}
	for i := 0; i < n; i++ {
		key := fmt.Sprintf("t%d", i)
		c := g.canary()
		m[key] = c
		exp := g.cfg.classify(false, "", "")
		if g.r.Intn(3) > 0 {
			var t encrypt.PointerTag
			t, exp = g.pointerTag("/" + key)
			tags = append(tags, t)
		}
		g.leaves = append(g.leaves, leaf{Path: cp(cp(path, pstep{K: 'M', Key: key}), pstep{K: 'E'}), Canary: c, Exp: adj(exp)})
	}
	if g.r.Intn(3) == 0 {
		sub := map[string]interface{}{}
		for i := 0; i < g.r.Range(1, 3); i++ {
			key := fmt.Sprintf("s%d", i)
			c := g.canary()
			sub[key] = c
			exp := g.cfg.classify(false, "", "")
			if g.r.Intn(2) == 0 {
				var t encrypt.PointerTag
				t, exp = g.pointerTag("/sub/" + key)
				tags = append(tags, t)
			}
			g.leaves = append(g.leaves, leaf{Path: cp(cp(cp(cp(path, pstep{K: 'M', Key: "sub"}), pstep{K: 'E'}), pstep{K: 'M', Key: key}), pstep{K: 'E'}), Canary: c, Exp: adj(exp)})
		}
		m["sub"] = sub
	}
	if g.r.Intn(4) == 0 {
		t, _ := g.pointerTag("/not-there")
		tags = append(tags, t)
	}
	hasArr := false
	if g.r.Intn(4) == 0 {
		// a []string no pointer tag addresses: its elements are unclassified values like any other
		arr := make([]string, g.r.Range(1, 3))
		for i := range arr {
			arr[i] = g.canary()
			g.leaves = append(g.leaves, leaf{Path: cp(cp(cp(path, pstep{K: 'M', Key: "arr"}), pstep{K: 'E'}), pstep{K: 'I', I: i}), Canary: arr[i], Exp: adj(g.cfg.classify(false, "", ""))})
		}
		m["arr"] = arr
		hasArr = true
	}
	if g.cfg.PtrCont && g.r.Intn(3) == 0 {
		// a container addressed by a pointer tag: whatever the filter makes of the container, none of the
		// plaintext in it may be readable when the tag asks for protection
		t, exp := g.pointerTag("/pc")
		tags = append(tags, t)
		c1, c2 := g.canary(), g.canary()
		// ([]interface{} is not among the supported shapes: its strings are not looked at, see DESIGN 9.3)
		switch g.r.Intn(3) {
		case 0:
			m["pc"] = []string{c1, c2}
		case 1:
			m["pc"] = [][]byte{[]byte(c1), []byte(c2)}
		case 2:
			m["pc"] = map[string]interface{}{"number": c1, "holder": c2}
		}
		if exp.protected() {
			for i, c := range []string{c1, c2} {
				g.leaves = append(g.leaves, leaf{Path: cp(cp(cp(path, pstep{K: 'M', Key: "pc"}), pstep{K: 'E'}), pstep{K: 'I', I: 100 + i}), Canary: c, Exp: adj(ProtAny)})
			}
		}
	}
	if g.r.Intn(40) == 0 && !untagged {
		// a pointer that cannot be applied: the filter cannot know what it guards => it must fail closed
		bad := []string{"no-leading-slash", "/__id/deeper"}
		if n > 0 {
			bad = append(bad, "/t0/0")
		}
		if hasArr {
			bad = append(bad, "/arr/7")
		}
		tags = append(tags, encrypt.PointerTag{Pointer: rt.Pick(g.r, bad), Classification: encrypt.SecretClassification})
		g.badTag = true
	}
	// tags come in any order (an absent optional key may well be listed first)
	for i, j := range g.r.Perm(len(tags)) {
		tags[i], tags[j] = tags[j], tags[i]
	}
	tagRegistry.Store(id, tags)
	v := reflect.New(tTMap).Elem()
	v.Set(reflect.ValueOf(m))
	return v
}

func (g *gen) instTStruct(path []pstep) reflect.Value {
	g.hasTM = true
	ts := TStruct{ID: g.canary() + "-id", Attrs: map[string]interface{}{}}
	var tags []encrypt.PointerTag
	for i := 0; i < g.r.Range(0, 3); i++ {
		key := fmt.Sprintf("a%d", i)
		c := g.canary()
		ts.Attrs[key] = c
		exp := g.cfg.classify(false, "", "")
		if g.r.Intn(3) > 0 {
			var t encrypt.PointerTag
			t, exp = g.pointerTag("/Attrs/" + key)
			tags = append(tags, t)
		}
		g.leaves = append(g.leaves, leaf{Path: cp(cp(cp(path, pstep{K: 'N', Key: "Attrs"}), pstep{K: 'M', Key: key}), pstep{K: 'E'}), Canary: c, Exp: exp})
	}
	if g.r.Intn(3) == 0 {
		// values of other kinds in the Taggable struct's map: structs (with Taggable map fields of their own), maps,
		// slices - no pointer tag addresses them, they are filtered like the values of any other map
		if dyn := g.genDyn(2); dyn != nil {
			p := cp(cp(cp(path, pstep{K: 'N', Key: "Attrs"}), pstep{K: 'M', Key: "dyn"}), pstep{K: 'E'})
			ts.Attrs["dyn"] = g.inst(dyn, p, g.cfg.classify(false, "", ""), true, 2).Interface()
		}
	}
	ts.Name, ts.Note, ts.Pub = g.canary(), g.canary(), g.canary()
	g.leaves = append(g.leaves,
		leaf{Path: cp(path, pstep{K: 'N', Key: "Name"}), Canary: ts.Name, Exp: g.cfg.classify(true, "sensitive", "")},
		leaf{Path: cp(path, pstep{K: 'N', Key: "Note"}), Canary: ts.Note, Exp: g.cfg.classify(false, "", "")},
		leaf{Path: cp(path, pstep{K: 'N', Key: "Pub"}), Canary: ts.Pub, Exp: Keep},
		leaf{Path: cp(path, pstep{K: 'N', Key: "ID"}), Canary: ts.ID, Exp: Keep})
	if g.r.Intn(3) == 0 {
		t, _ := g.pointerTag("/Attrs/not-there")
		tags = append(tags, t)
	}
	for i, j := range g.r.Perm(len(tags)) {
		tags[i], tags[j] = tags[j], tags[i]
	}
	tagRegistry.Store(ts.ID, tags)
	v := reflect.New(tTStruct).Elem()
	v.Set(reflect.ValueOf(ts))
	return v
}

// payloadCase is one generated payload with everything the oracles need.
type payloadCase struct {
	Payload  interface{}
	Leaves   []leaf
	Sig      string
	RootKind string
	MustFail bool // unsettable payload: by-value string / []byte
	BadTag   bool
	HasTM    bool
	OddTag   bool
}

// genPayload draws a payload of the grammar. Calling it again with the same seed yields a
// bit-identical twin.
func genPayload(seed uint64, cfg encCfg) *payloadCase {
	g := &gen{r: rt.NewRand(seed), cfg: cfg, seed: seed}
	pc := &payloadCase{}
	depth := g.r.Range(1, 3)
	secret := g.cfg.classify(true, "secret", "")
	var s *spec
	x := g.r.Intn(100)
	switch {
	case x < 70:
		s = g.genContainer(depth, true)
	case x < 74:
		s = &spec{kind: "pstring", typ: reflect.PtrTo(tString)}
	case x < 77:
		s = &spec{kind: "string", typ: tString}
		pc.MustFail = true
	case x < 81:
		s = &spec{kind: "strings", typ: tStrings}
	case x < 84:
		s = &spec{kind: "pstrings", typ: reflect.PtrTo(tStrings)}
	case x < 87:
		s = g.wrapSlice(&spec{kind: "pstring", typ: reflect.PtrTo(tString)})
		g.noNil = true
	case x < 90:
		s = &spec{kind: "bytess", typ: tBytess}
	case x < 93:
		s = g.wrapPtr(&spec{kind: "bytess", typ: tBytess})
	case x < 96:
		s = &spec{kind: "bytes", typ: tBytes}
		pc.MustFail = true
	default:
		s = g.wrapPtr(g.wrapSlice(g.genStruct(depth)))
	}
	pc.RootKind = s.kind
	if s.elem != nil {
		pc.RootKind += "<" + s.elem.kind + ">"
	}
	exp := secret
	v := g.inst(s, nil, exp, false, depth)
	pc.Payload = v.Interface()
	pc.Leaves = g.leaves
	pc.Sig = s.sig()
	pc.BadTag = g.badTag
	pc.HasTM = g.hasTM
	pc.OddTag = g.oddTag
	return pc
}

// genValueStructPayload draws a root struct passed BY VALUE. The filter forwards such a payload
// unfiltered (documented by the package's own example), so it is outside C09's grammar; C10 still
// demands that the input is not modified and shares no memory with what is forwarded.
func genValueStructPayload(seed uint64, cfg encCfg) *payloadCase {
	g := &gen{r: rt.NewRand(seed), cfg: cfg, seed: seed}
	s := g.genStruct(g.r.Range(1, 3))
	v := g.inst(s, nil, Either, false, 2)
	return &payloadCase{Payload: v.Interface(), Leaves: g.leaves, Sig: "byvalue:" + s.sig(), RootKind: "struct-by-value"}
}
