package enc

import (
	"bytes"
	"context"
	"fmt"
	"runtime"
	"sync"
	"sync/atomic"
	"testing"

	"github.com/hashicorp/eventlogger"
	"github.com/hashicorp/eventlogger/filters/encrypt"
	wrapping "github.com/hashicorp/go-kms-wrapping/v2"

	"verifharness/internal/cryp"
	"verifharness/internal/rt"
)

// KPayload has one field per protection kind; infoPayload additionally carries per-event wrapper info.
type KPayload struct {
	Pub  string `class:"public"`
	Enc  string `class:"sensitive"`
	EncB []byte `class:"sensitive,encrypt"`
	Hm   string `class:"sensitive,hmac-sha256"`
	HmB  []byte `class:"secret,hmac-sha256"`
	Enc2 string `class:"secret,encrypt"`
	Hm2  string `class:"sensitive,hmac-sha256"` // same plaintext as Hm: equal inputs give equal digests
	// slices are protected element by element: each element as if it stood alone (repeated elements, an empty one)
	HmS  []string `class:"sensitive,hmac-sha256"`
	EncS [][]byte `class:"secret,encrypt"`
}

type infoPayload struct {
	KPayload
	id   string
	salt []byte
	info []byte
}

func (p *infoPayload) EventId() string  { return p.id }
func (p *infoPayload) HmacSalt() []byte { return p.salt }
func (p *infoPayload) HmacInfo() []byte { return p.info }

// tagPayload / infoTagPayload additionally hold a Taggable map whose pointer tags demand encrypt and hmac.
type tagPayload struct {
	KPayload
	Attrs TMap
}

type infoTagPayload struct {
	KPayload
	Attrs TMap
	id    string
	salt  []byte
	info  []byte
}

func (p *infoTagPayload) EventId() string  { return p.id }
func (p *infoTagPayload) HmacSalt() []byte { return p.salt }
func (p *infoTagPayload) HmacInfo() []byte { return p.info }

// nestPayload / infoNestPayload hold an untagged map whose values are structs (by value, by pointer, in slices):
// their tagged fields are protected with the same wrapper, salt and info as the fields of the payload itself.
type nestPayload struct {
	KPayload
	M map[string]interface{}
}

type infoNestPayload struct {
	KPayload
	M    map[string]interface{}
	id   string
	salt []byte
	info []byte
}

func (p *infoNestPayload) EventId() string  { return p.id }
func (p *infoNestPayload) HmacSalt() []byte { return p.salt }
func (p *infoNestPayload) HmacInfo() []byte { return p.info }

// genNest builds the map and returns the originals by a label that tells where each was put.
func genNest(r *rt.Rand) (map[string]interface{}, map[string]KPayload) {
	m, origs := map[string]interface{}{}, map[string]KPayload{}
	add := func(label string) KPayload {
		k := genK(r)
		origs[label] = k
		return k
	}
	if r.Bool() {
		k := add("p")
		m["p"] = &k
	}
	if r.Bool() {
		m["s"] = add("s")
	}
	if r.Bool() || len(m) == 0 {
		var l []*KPayload
		for i, n := 0, r.Range(1, 2); i < n; i++ {
			k := add(fmt.Sprintf("l%d", i))
			l = append(l, &k)
		}
		m["l"] = l
	}
	if r.Intn(3) == 0 {
		var l []KPayload
		for i, n := 0, r.Range(1, 2); i < n; i++ {
			l = append(l, add(fmt.Sprintf("v%d", i)))
		}
		m["v"] = l
	}
	if r.Intn(3) == 0 {
		k := add("mp")
		m["m"] = map[string]interface{}{"p": &k}
	}
	return m, origs
}

// nestGot collects what the forwarded map holds under the same labels ("" and false if a value changed its type).
func nestGot(m map[string]interface{}) (map[string]KPayload, string) {
	got := map[string]KPayload{}
	for key, v := range m {
		switch x := v.(type) {
		case *KPayload:
			if x == nil {
				return nil, key + " became nil"
			}
			got[key] = *x
		case KPayload:
			got[key] = x
		case []*KPayload:
			for i, e := range x {
				if e == nil {
					return nil, fmt.Sprintf("%s[%d] became nil", key, i)
				}
				got[fmt.Sprintf("l%d", i)] = *e
			}
		case []KPayload:
			for i, e := range x {
				got[fmt.Sprintf("v%d", i)] = e
			}
		case map[string]interface{}:
			if p, ok := x["p"].(*KPayload); ok && p != nil {
				got["mp"] = *p
			} else {
				return nil, "the inner map's value changed its type"
			}
		default:
			return nil, fmt.Sprintf("%s has type %T", key, v)
		}
	}
	return got, ""
}

var attrCtr int

func genAttrs(r *rt.Rand) (TMap, string, string) {
	attrCtr++
	id := fmt.Sprintf("attrs-%d", attrCtr)
	e, h := string(genBytesVal(r))+"E", string(genBytesVal(r))+"H"
	tags := []encrypt.PointerTag{
		{Pointer: "/__id", Classification: encrypt.PublicClassification},
		{Pointer: "/e", Classification: encrypt.SensitiveClassification, Filter: encrypt.EncryptOperation},
		{Pointer: "/h", Classification: encrypt.SensitiveClassification, Filter: encrypt.HmacSha256Operation},
	}
	m := TMap{"__id": id, "e": e, "h": h}
	if r.Bool() {
		// byte-slice values (incl. empty and non-UTF8) selected by pointer tags; same plaintext as /e and /h
		tags = append(tags,
			encrypt.PointerTag{Pointer: "/eb", Classification: encrypt.SensitiveClassification, Filter: encrypt.EncryptOperation},
			encrypt.PointerTag{Pointer: "/hb", Classification: encrypt.SecretClassification, Filter: encrypt.HmacSha256Operation})
		m["eb"], m["hb"] = []byte(e), []byte(h)
	}
	tagRegistry.Store(id, tags)
	return m, e, h
}

// attrString reads a protected Taggable value, which the filter may leave as a string or as bytes.
func attrString(v interface{}) (string, bool) {
	switch x := v.(type) {
	case string:
		return x, true
	case []byte:
		return string(x), true
	}
	return "", false
}

// slowRotPayload yields inside HmacSalt (user code that is slow while the filter asks for the new values).
type slowRotPayload struct {
	rotPayload
	yields int
}

func (p *slowRotPayload) HmacSalt() []byte {
	for i := 0; i < p.yields; i++ {
		runtime.Gosched()
	}
	return p.salt
}

// config in force
type kcfg struct {
	n    int
	key  []byte
	salt []byte
	info []byte
}

func (c kcfg) String() string {
	return fmt.Sprintf("#%d key=%x.. salt=%q info=%q", c.n, c.key[:4], c.salt, c.info)
}

func genBytesVal(r *rt.Rand) []byte {
	switch r.Intn(8) {
	case 0:
		return []byte{}
	case 1:
		return []byte{0xff, 0xfe, 0x00, 0x80} // not UTF-8
	case 2:
		b := r.Bytes(r.Range(1, 64))
		return b
	case 3:
		// an original that merely looks like the filter's own output is an original all the same
		tail := rt.Pick(r, []string{"", "QUJD", "QUJDRA", "QUJDREU", fmt.Sprintf("value_%d-%x", r.Intn(1000), r.Uint64()), "not base64 !"})
		return []byte(rt.Pick(r, []string{cryp.EncPrefix, cryp.HmacPrefix, cryp.Redacted}) + tail)
	}
	return []byte(fmt.Sprintf("value-%d-%x", r.Intn(1000), r.Uint64()))
}

func optBytes(r *rt.Rand, label string) []byte {
	switch r.Intn(3) {
	case 0:
		return nil
	case 1:
		return []byte{}
	}
	return []byte(fmt.Sprintf("%s-%d", label, r.Intn(1000)))
}

func newKey(r *rt.Rand) []byte { return r.Bytes(32) }

// verifyEvent checks every protected value of out against the original and the configuration given.
// It returns "" or a description of the first mismatch.
// classRedact: the sensitive class is overridden to redact (the override of a class replaces whatever operation a
// tag of that class names); the secret class has no override, so the operations its tags name (Enc2: encrypt,
// HmB: hmac-sha256) still apply - with the wrapper, salt and info in force for the event.
var classRedact bool

func verifyEvent(orig KPayload, out KPayload, encKey, hmacKey, salt, info []byte, otherKeys [][]byte) string {
	if out.Pub != orig.Pub {
		return fmt.Sprintf("public value changed: %q -> %q", orig.Pub, out.Pub)
	}
	if !classRedact {
		return verifyEventSkipEnc(orig, out, encKey, hmacKey, salt, info, otherKeys)
	}
	for name, got := range map[string]string{"Enc": out.Enc, "Hm": out.Hm, "Hm2": out.Hm2} {
		if got != cryp.Redacted {
			return fmt.Sprintf("%s (class sensitive) must be redacted when the sensitive class is overridden to redact, got %.40q", name, got)
		}
	}
	if orig.EncB != nil && string(out.EncB) != cryp.Redacted {
		return fmt.Sprintf("EncB (class sensitive) must be redacted when the sensitive class is overridden to redact, got %.40q", out.EncB)
	}
	pt, err := cryp.Open(out.Enc2, encKey)
	if err != nil || string(pt) != orig.Enc2 {
		return fmt.Sprintf("Enc2 (secret,encrypt) does not decrypt to the original with the wrapper in force for the event: %v", err)
	}
	for _, ok := range otherKeys {
		if _, err := cryp.Open(out.Enc2, ok); err == nil {
			return "Enc2 also decrypts under a key that is not in force (no key separation)"
		}
	}
	if orig.HmB != nil {
		if want := cryp.Hmac(orig.HmB, hmacKey, salt, info); string(out.HmB) != want {
			return fmt.Sprintf("HmB (secret,hmac-sha256) = %q, HMAC-SHA256 under the key/salt/info in force for the event is %q", out.HmB, want)
		}
	}
	if len(out.HmS) != len(orig.HmS) || len(out.EncS) != len(orig.EncS) {
		return fmt.Sprintf("slice lengths changed: HmS %d -> %d, EncS %d -> %d", len(orig.HmS), len(out.HmS), len(orig.EncS), len(out.EncS))
	}
	for i := range orig.HmS {
		if out.HmS[i] != cryp.Redacted {
			return fmt.Sprintf("HmS[%d] (class sensitive) must be redacted when the sensitive class is overridden to redact, got %.40q", i, out.HmS[i])
		}
	}
	return verifySlices(orig, out, encKey, nil, nil, nil, otherKeys, false)
}

// verifySlices: every element of a protected slice is protected as if it stood alone.
func verifySlices(orig KPayload, out KPayload, encKey, hmacKey, salt, info []byte, otherKeys [][]byte, hm bool) string {
	if len(out.HmS) != len(orig.HmS) || len(out.EncS) != len(orig.EncS) {
		return fmt.Sprintf("slice lengths changed: HmS %d -> %d, EncS %d -> %d", len(orig.HmS), len(out.HmS), len(orig.EncS), len(out.EncS))
	}
	for i := range orig.EncS {
		pt, err := cryp.Open(string(out.EncS[i]), encKey)
		if err != nil {
			return fmt.Sprintf("EncS[%d] does not decrypt with the wrapper in force: %v", i, err)
		}
		if !bytes.Equal(pt, orig.EncS[i]) {
			return fmt.Sprintf("EncS[%d] decrypts to %q, original %q", i, pt, orig.EncS[i])
		}
		for _, ok := range otherKeys {
			if _, err := cryp.Open(string(out.EncS[i]), ok); err == nil {
				return fmt.Sprintf("EncS[%d] also decrypts under a key that is not in force (no key separation)", i)
			}
		}
	}
	if hm {
		for i := range orig.HmS {
			if want := cryp.Hmac([]byte(orig.HmS[i]), hmacKey, salt, info); out.HmS[i] != want {
				return fmt.Sprintf("HmS[%d] = %q, HMAC-SHA256 of that element under the key/salt/info in force is %q", i, out.HmS[i], want)
			}
		}
	}
	return ""
}

func verifyEventSkipEnc(orig KPayload, out KPayload, encKey, hmacKey, salt, info []byte, otherKeys [][]byte) string {
	skipEnc := false
	type ev struct {
		name string
		got  string
		want []byte
	}
	for _, e := range []ev{{"Enc", out.Enc, []byte(orig.Enc)}, {"EncB", string(out.EncB), orig.EncB}, {"Enc2", out.Enc2, []byte(orig.Enc2)}} {
		if e.name == "EncB" && orig.EncB == nil {
			continue
		}
		if e.name == "Enc" && skipEnc {
			continue
		}
		pt, err := cryp.Open(e.got, encKey)
		if err != nil {
			return fmt.Sprintf("%s does not decrypt with the wrapper in force: %v", e.name, err)
		}
		if !bytes.Equal(pt, e.want) {
			return fmt.Sprintf("%s decrypts to %q, original %q", e.name, pt, e.want)
		}
		for _, ok := range otherKeys {
			if _, err := cryp.Open(e.got, ok); err == nil {
				return fmt.Sprintf("%s also decrypts under a key that is not in force (no key separation)", e.name)
			}
		}
	}
	for _, e := range []ev{{"Hm", out.Hm, []byte(orig.Hm)}, {"HmB", string(out.HmB), orig.HmB}, {"Hm2", out.Hm2, []byte(orig.Hm2)}} {
		if e.name == "HmB" && orig.HmB == nil {
			continue
		}
		if want := cryp.Hmac(e.want, hmacKey, salt, info); e.got != want {
			return fmt.Sprintf("%s = %q, HMAC-SHA256 under the key/salt/info in force is %q", e.name, e.got, want)
		}
	}
	return verifySlices(orig, out, encKey, hmacKey, salt, info, otherKeys, true)
}

func genK(r *rt.Rand) KPayload {
	k := KPayload{Pub: "pub", Enc: string(genBytesVal(r)), EncB: genBytesVal(r), Hm: string(genBytesVal(r)), HmB: genBytesVal(r), Enc2: string(genBytesVal(r))}
	k.Hm2 = k.Hm
	if r.Intn(3) > 0 {
		for i, n := 0, r.Range(1, 4); i < n; i++ {
			switch {
			case i > 0 && r.Intn(3) == 0:
				k.HmS = append(k.HmS, k.HmS[r.Intn(i)])
			case i > 0 && r.Intn(4) == 0:
				k.HmS = append(k.HmS, "")
			default:
				k.HmS = append(k.HmS, string(genBytesVal(r)))
			}
		}
		for i, n := 0, r.Range(1, 3); i < n; i++ {
			k.EncS = append(k.EncS, genBytesVal(r))
		}
	}
	if r.Intn(10) == 0 {
		k.EncB = nil
	}
	if r.Intn(10) == 0 {
		k.HmB = nil
	}
	return k
}

func effective(evv, filter []byte) []byte {
	if evv != nil {
		return evv
	}
	return filter
}

func TestC16(t *testing.T) {
	run := rt.Start(t, "C16")
	defer run.Finish()
	r := run.Rand()
	ctx := context.Background()

	// ---- sequential histories: events interleaved with Rotate / rotation payloads --------------------
	nh := run.N(600, 40000)
	for i := 0; i < nh && !run.Stop(); i++ {
		cr := r.Fork()
		cur := kcfg{key: newKey(cr), salt: optBytes(cr, "fsalt"), info: optBytes(cr, "finfo")}
		// key ids do not identify key material: in a third of the histories every wrapper carries the same id
		fixedID := cr.Intn(3) == 0
		kid := func(s string) string {
			if fixedID {
				return "audit-events"
			}
			return s
		}
		curW := cryp.NewWrapper(cur.key, kid("k0"))
		f := &encrypt.Filter{Wrapper: curW, HmacSalt: cur.salt, HmacInfo: cur.info}
		// in a quarter of the histories no class default needs a wrapper any more; the operations that fields and
		// pointer tags name themselves still do, and they use the wrapper, salt and info in force for the event
		classRedact = cr.Intn(4) == 0
		if classRedact {
			f.FilterOperationOverrides = map[encrypt.DataClassification]encrypt.FilterOperation{encrypt.SensitiveClassification: encrypt.RedactOperation}
		}
		var hist []string
		oldKeys := [][]byte{}
		run.Progress("C16 sequential history %d", i)
		steps := cr.Range(4, 14)
		for s := 0; s < steps; s++ {
			switch x := cr.Intn(10); {
			case x < 2: // Rotate
				var opts []encrypt.Option
				desc := "Rotate("
				if cr.Bool() {
					oldKeys = append(oldKeys, cur.key)
					cur.key = newKey(cr)
					curW = cryp.NewWrapper(cur.key, kid(fmt.Sprintf("k%d", s)))
					opts = append(opts, encrypt.WithWrapper(curW))
					desc += "wrapper "
				}
				if cr.Bool() {
					if v := optBytes(cr, "rsalt"); v != nil {
						cur.salt = v
						opts = append(opts, encrypt.WithSalt(v))
						desc += fmt.Sprintf("salt=%q ", v)
					}
				}
				if cr.Bool() {
					if v := optBytes(cr, "rinfo"); v != nil {
						cur.info = v
						opts = append(opts, encrypt.WithInfo(v))
						desc += fmt.Sprintf("info=%q ", v)
					}
				}
				if len(opts) == 0 && len(cur.info) > 0 && cr.Bool() {
					// the bytes move from one parameter to the other: what was the info becomes the salt, the info
					// becomes empty (the concatenation of the two stays the same, the derived key does not)
					cur.salt, cur.info = append([]byte(nil), cur.info...), []byte{}
					opts = append(opts, encrypt.WithSalt(cur.salt), encrypt.WithInfo(cur.info))
					desc += fmt.Sprintf("salt=%q info=%q (moved) ", cur.salt, cur.info)
				}
				f.Rotate(opts...)
				hist = append(hist, desc+")")
			case x < 4: // in-band rotation payload
				rp := &rotPayload{}
				desc := "RotatePayload("
				if cr.Bool() {
					oldKeys = append(oldKeys, cur.key)
					cur.key = newKey(cr)
					curW = cryp.NewWrapper(cur.key, kid(fmt.Sprintf("p%d", s)))
					rp.w = curW
					desc += "wrapper "
				} else if cr.Intn(3) == 0 {
					// the payload names the wrapper that is in force already (only salt / info change, if anything)
					rp.w = curW
					desc += "same-wrapper "
				}
				if v := optBytes(cr, "psalt"); v != nil && cr.Bool() {
					cur.salt, rp.salt = v, append(make([]byte, 0, len(v)), v...)
					desc += fmt.Sprintf("salt=%q ", v)
				}
				if v := optBytes(cr, "pinfo"); v != nil && cr.Bool() {
					cur.info, rp.info = v, append(make([]byte, 0, len(v)), v...)
					desc += fmt.Sprintf("info=%q ", v)
				}
				out, err := f.Process(ctx, &eventlogger.Event{Type: "t", Payload: rp})
				if cr.Bool() {
					// the sender of the rotation payload wipes its own buffers once the payload was consumed:
					// the values in force are those the payload reported while it was processed
					for k := range rp.salt {
						rp.salt[k] = 'X'
					}
					for k := range rp.info {
						rp.info[k] = 'X'
					}
					desc += "sender wipes its buffers afterwards "
				}
				hist = append(hist, desc+")")
				if out != nil || err != nil {
					run.Violation("history-pattern:rotation-payload", fmt.Sprintf("a rotation payload must be consumed: out=%v err=%v", out != nil, err), hist)
				}
			default: // an event
				orig := genK(cr)
				var payload interface{}
				encKey, hmacKey, salt, info := cur.key, cur.key, cur.salt, cur.info
				var others [][]byte
				withInfo := cr.Intn(2) == 0
				desc := "event(plain)"
				emptyID := false
				withAttrs := cr.Intn(3) == 0 && !classRedact // (the map's pointer tags are of the sensitive class)
				var attrs TMap
				var attrE, attrH string
				if withAttrs {
					attrs, attrE, attrH = genAttrs(cr)
				}
				withNest := !withAttrs && cr.Intn(3) == 0
				var nest map[string]interface{}
				var nestOrig map[string]KPayload
				if withNest {
					nest, nestOrig = genNest(cr)
				}
				if withInfo {
					ip := &infoPayload{KPayload: orig, id: fmt.Sprintf("ev-%d-%d", i, cr.Intn(3)), salt: optBytes(cr, "esalt"), info: optBytes(cr, "einfo")}
					if cr.Intn(12) == 0 {
						ip.id = ""
						emptyID = true
					}
					payload = ip
					if withAttrs {
						payload = &infoTagPayload{KPayload: orig, Attrs: attrs, id: ip.id, salt: ip.salt, info: ip.info}
					}
					if withNest {
						payload = &infoNestPayload{KPayload: orig, M: nest, id: ip.id, salt: ip.salt, info: ip.info}
					}
					encKey = cryp.EventKey(cur.key, ip.id)
					hmacKey = encKey
					salt, info = effective(ip.salt, cur.salt), effective(ip.info, cur.info)
					others = append(others, cur.key, cryp.EventKey(cur.key, ip.id+"x"))
					desc = fmt.Sprintf("event(id=%q salt=%q info=%q attrs=%v nested=%v)", ip.id, ip.salt, ip.info, withAttrs, withNest)
				} else {
					cp := orig
					payload = &cp
					if withAttrs {
						payload = &tagPayload{KPayload: orig, Attrs: attrs}
						desc = "event(plain, attrs)"
					}
					if withNest {
						payload = &nestPayload{KPayload: orig, M: nest}
						desc = "event(plain, nested structs in a map)"
					}
				}
				others = append(others, oldKeys...)
				out, err := f.Process(ctx, &eventlogger.Event{Type: "t", Payload: payload})
				hist = append(hist, desc)
				wit := func(extra string) any {
					return map[string]any{"history": hist, "config_in_force": cur.String(), "detail": extra}
				}
				if emptyID {
					// the library refuses an empty event id (no per-event wrapper can be derived). The statement
					// does not demand the refusal; it does demand that whatever is forwarded is protected under a
					// key that can be in force: the per-event key of the empty id, or the filter's own
					switch {
					case err != nil && out == nil:
						run.Add("empty_event_id_refused", 1)
					case err != nil:
						run.Violation("history-pattern:empty-event-id", "Process returned an error and an event for an empty event id", wit(""))
					default:
						var gotE KPayload
						switch p := out.Payload.(type) {
						case *infoPayload:
							gotE = p.KPayload
						case *infoTagPayload:
							gotE = p.KPayload
						case *infoNestPayload:
							gotE = p.KPayload
						}
						k1 := cryp.EventKey(cur.key, "")
						if why1, why2 := verifyEvent(orig, gotE, k1, k1, salt, info, nil), verifyEvent(orig, gotE, cur.key, cur.key, salt, info, nil); why1 != "" && why2 != "" {
							run.Violation("history-pattern:empty-event-id", "an event with an empty event id was forwarded protected under neither the per-event key of the empty id nor the filter's key: "+why1, wit(why2))
						}
					}
					continue
				}
				if err != nil || out == nil {
					run.Violation("history-pattern:refused", fmt.Sprintf("Process failed for an ordinary event: %v", err), wit(""))
					continue
				}
				var got KPayload
				var gotAttrs TMap
				var gotNest map[string]interface{}
				switch p := out.Payload.(type) {
				case *KPayload:
					got = *p
				case *infoPayload:
					got = p.KPayload
				case *tagPayload:
					got, gotAttrs = p.KPayload, p.Attrs
				case *infoTagPayload:
					got, gotAttrs = p.KPayload, p.Attrs
				case *nestPayload:
					got, gotNest = p.KPayload, p.M
				case *infoNestPayload:
					got, gotNest = p.KPayload, p.M
				default:
					run.Violation("history-pattern:type-changed", fmt.Sprintf("output payload type %T", out.Payload), wit(""))
					continue
				}
				if withNest {
					// structs held by the map (by pointer, by value, in slices, one map further down): same wrapper,
					// salt and info as the payload's own fields
					gn, why := nestGot(gotNest)
					if why != "" || len(gn) != len(nestOrig) {
						run.Violation("history-pattern:type-changed", fmt.Sprintf("the map of structs changed its shape: %s (%d structs in, %d out)", why, len(nestOrig), len(gn)), wit(""))
					} else {
						for label, o := range nestOrig {
							if why := verifyEvent(o, gn[label], encKey, hmacKey, salt, info, others); why != "" {
								run.Violation("history-pattern:wrong-key-or-value:nested", fmt.Sprintf("struct %q held by a map of the payload: %s", label, why), wit(why))
								break
							}
							run.Add("values_verified", 7)
							run.Add("nested_structs_verified", 1)
						}
					}
				}
				if why := verifyEvent(orig, got, encKey, hmacKey, salt, info, others); why != "" {
					run.Violation("history-pattern:wrong-key-or-value", why, wit(why))
				}
				if withAttrs {
					// values reached through pointer tags use the same wrapper, salt and info as tagged fields
					ge, _ := gotAttrs["e"].(string)
					gh, _ := gotAttrs["h"].(string)
					if pt, err := cryp.Open(ge, encKey); err != nil || string(pt) != attrE {
						run.Violation("history-pattern:wrong-key-or-value", fmt.Sprintf("pointer-tagged value /e does not decrypt with the wrapper in force for the event (%v)", err), wit("Taggable map value"))
					}
					if want := cryp.Hmac([]byte(attrH), hmacKey, salt, info); gh != want {
						run.Violation("history-pattern:wrong-key-or-value", fmt.Sprintf("pointer-tagged value /h = %q, HMAC under the key/salt/info in force is %q", gh, want), wit("Taggable map value"))
					}
					run.Add("values_verified", 2)
					if _, has := attrs["eb"]; has {
						gb, ok1 := attrString(gotAttrs["eb"])
						ghb, ok2 := attrString(gotAttrs["hb"])
						if pt, err := cryp.Open(gb, encKey); !ok1 || err != nil || string(pt) != attrE {
							run.Violation("history-pattern:wrong-key-or-value", fmt.Sprintf("pointer-tagged []byte value /eb does not decrypt to the original bytes %q with the wrapper in force (got %q, %v)", attrE, pt, err), wit("Taggable map []byte value"))
						}
						if want := cryp.Hmac([]byte(attrH), hmacKey, salt, info); !ok2 || ghb != want {
							run.Violation("history-pattern:wrong-key-or-value", fmt.Sprintf("pointer-tagged []byte value /hb = %q, HMAC of the original bytes under the key/salt/info in force is %q", ghb, want), wit("Taggable map []byte value"))
						}
						if ok2 && ghb != gh {
							run.Violation("history-pattern:digest-not-deterministic", "equal inputs (a string and a []byte with the same bytes) under equal keys gave different digests", wit(""))
						}
						run.Add("values_verified", 2)
					}
				}
				if got.Hm != got.Hm2 && !classRedact {
					run.Violation("history-pattern:digest-not-deterministic", "equal inputs under equal keys gave different digests", wit(""))
				}
				run.Add("values_verified", 7)
			}
		}
		run.Eval(fmt.Sprintf("seq|%v", hist))
		if run.NeedSample() {
			run.Sample(map[string]any{"history": hist})
		}
	}

	classRedact = false
	// ---- concurrent rotation ------------------------------------------------------------------------------
	nc := run.N(60, 3000)
	for i := 0; i < nc && !run.Stop(); i++ {
		cr := r.Fork()
		nproc, nrot, nev, nrotations := cr.Range(2, 6), cr.Range(1, 2), cr.Range(30, 120), cr.Range(4, 25)
		run.Progress("C16 concurrent %d processors=%d rotators=%d", i, nproc, nrot)
		// configuration 0 .. N: full unique triples
		total := nrotations*nrot + 1
		cfgs := make([]kcfg, total)
		for k := range cfgs {
			cfgs[k] = kcfg{n: k, key: newKey(cr), salt: []byte(fmt.Sprintf("salt-%d", k)), info: []byte(fmt.Sprintf("info-%d", k))}
		}
		if cr.Bool() {
			// the filter starts without salt and info; the first rotation brings them
			cfgs[0].salt, cfgs[0].info = nil, nil
		}
		f := &encrypt.Filter{Wrapper: cryp.NewWrapper(cfgs[0].key, "c0"), HmacSalt: cfgs[0].salt, HmacInfo: cfgs[0].info}
		rotCall := make([]int64, total)
		rotRet := make([]int64, total)
		var next int64 // next configuration index to install
		type pe struct {
			orig      KPayload
			out       KPayload
			call, ret int64
			err       error
		}
		results := make([][]*pe, nproc)
		bar := rt.NewBarrier(nproc + nrot)
		var wg sync.WaitGroup
		for p := 0; p < nproc; p++ {
			wg.Add(1)
			pr := cr.Fork()
			go func(p int) {
				defer wg.Done()
				bar.Wait()
				for n := 0; n < nev; n++ {
					e := &pe{orig: genK(pr)}
					cp := e.orig
					e.call = rt.Tick()
					out, err := f.Process(ctx, &eventlogger.Event{Type: "t", Payload: &cp})
					e.ret = rt.Tick()
					e.err = err
					if out != nil {
						if kp, ok := out.Payload.(*KPayload); ok {
							e.out = *kp
						}
					}
					results[p] = append(results[p], e)
				}
			}(p)
		}
		var rotMu sync.Mutex
		for q := 0; q < nrot; q++ {
			wg.Add(1)
			go func(q int) {
				defer wg.Done()
				bar.Wait()
				for n := 0; n < nrotations; n++ {
					// rotations are serialised among rotators so that configuration k+1 follows k
					rotMu.Lock()
					k := int(atomic.AddInt64(&next, 1))
					c := cfgs[k]
					rotCall[k] = rt.Tick()
					if (k+q)%2 == 0 {
						f.Rotate(encrypt.WithWrapper(cryp.NewWrapper(c.key, fmt.Sprintf("c%d", k))), encrypt.WithSalt(c.salt), encrypt.WithInfo(c.info))
					} else {
						f.Process(ctx, &eventlogger.Event{Type: "t", Payload: &rotPayload{w: cryp.NewWrapper(c.key, fmt.Sprintf("c%d", k)), salt: c.salt, info: c.info}})
					}
					rotRet[k] = rt.Tick()
					rotMu.Unlock()
					for y := 0; y < 3; y++ {
						runtime.Gosched()
					}
				}
			}(q)
		}
		wg.Wait()
		installed := int(atomic.LoadInt64(&next))
		// ---- oracle: every value verifies under exactly one installed configuration, inside its window
		usedCfgs := map[int]bool{}
		for p := range results {
			for _, e := range results[p] {
				wit := func(extra string) any {
					return map[string]any{"processors": nproc, "rotators": nrot, "rotations": installed, "process_interval": []int64{e.call, e.ret}, "detail": extra}
				}
				if e.err != nil {
					run.Violation("history-pattern:refused", "Process failed during concurrent rotation: "+e.err.Error(), wit(""))
					continue
				}
				lo, hi := 0, installed
				for k := 1; k <= installed; k++ {
					if rotRet[k] < e.call {
						lo = k // configuration k was fully installed before this event started
					}
				}
				for k := installed; k >= 1; k-- {
					if rotCall[k] > e.ret {
						hi = k - 1 // configuration k was requested only after this event ended
					}
				}
				type val struct {
					name string
					got  string
					orig []byte
					enc  bool
				}
				vals := []val{{"Enc", e.out.Enc, []byte(e.orig.Enc), true}, {"Enc2", e.out.Enc2, []byte(e.orig.Enc2), true}, {"Hm", e.out.Hm, []byte(e.orig.Hm), false}, {"Hm2", e.out.Hm2, []byte(e.orig.Hm2), false}}
				if e.orig.EncB != nil {
					vals = append(vals, val{"EncB", string(e.out.EncB), e.orig.EncB, true})
				}
				if e.orig.HmB != nil {
					vals = append(vals, val{"HmB", string(e.out.HmB), e.orig.HmB, false})
				}
				for _, v := range vals {
					match := -1
					for k := 0; k <= installed; k++ {
						ok := false
						if v.enc {
							pt, err := cryp.Open(v.got, cfgs[k].key)
							ok = err == nil && bytes.Equal(pt, v.orig)
						} else {
							ok = v.got == cryp.Hmac(v.orig, cfgs[k].key, cfgs[k].salt, cfgs[k].info)
						}
						if ok {
							match = k
							break
						}
					}
					if match < 0 {
						detail := ""
						if !v.enc {
							// which mixture explains it?
							for a := 0; a <= installed && detail == ""; a++ {
								for b := 0; b <= installed && detail == ""; b++ {
									for c := 0; c <= installed; c++ {
										if v.got == cryp.Hmac(v.orig, cfgs[a].key, cfgs[b].salt, cfgs[c].info) {
											detail = fmt.Sprintf("it is the digest under wrapper #%d with salt #%d and info #%d", a, b, c)
											break
										}
									}
								}
							}
						}
						run.Violation("history-pattern:torn-configuration", fmt.Sprintf("%s verifies under none of the configurations that were ever in force as a whole (wrapper, salt, info): %s", v.name, detail), wit(detail))
						continue
					}
					usedCfgs[match] = true
					if match < lo || match > hi {
						run.Violation("history-pattern:stale-key", fmt.Sprintf("%s was protected with configuration #%d, but only #%d..#%d can be in force for an event processed in [%d,%d]", v.name, match, lo, hi, e.call, e.ret), wit(""))
					}
				}
				run.Add("values_verified", len(vals))
			}
		}
		run.Add("configurations_seen_in_outputs", len(usedCfgs))
		run.Eval(fmt.Sprintf("conc|%d|%d|%d|%d|%d", nproc, nrot, nev, installed, len(usedCfgs)))
	}
	// ---- two rotations at once, each changing another part ----------------------------------------------------
	// A rotation payload that carries only a salt and a Rotate that carries only a wrapper overlap; whichever order
	// they take effect in, once both have returned the wrapper is the new one and the salt is the new one.
	np := run.N(300, 10000)
	for i := 0; i < np && !run.Stop(); i++ {
		cr := r.Fork()
		k1, k2 := newKey(cr), newKey(cr)
		f := &encrypt.Filter{Wrapper: cryp.NewWrapper(k1, "w1"), HmacSalt: []byte("salt-1"), HmacInfo: []byte("info-1")}
		rp := &slowRotPayload{rotPayload: rotPayload{salt: []byte("salt-2")}, yields: cr.Intn(6)}
		bar := rt.NewBarrier(2)
		var wg sync.WaitGroup
		wg.Add(2)
		go func() {
			defer wg.Done()
			bar.Wait()
			f.Process(ctx, &eventlogger.Event{Type: "t", Payload: rp})
		}()
		go func() {
			defer wg.Done()
			bar.Wait()
			for y := cr.Intn(4); y > 0; y-- {
				runtime.Gosched()
			}
			f.Rotate(encrypt.WithWrapper(cryp.NewWrapper(k2, "w2")))
		}()
		wg.Wait()
		orig := genK(cr)
		cp := orig
		out, err := f.Process(ctx, &eventlogger.Event{Type: "t", Payload: &cp})
		if err != nil || out == nil {
			run.Violation("history-pattern:refused", fmt.Sprintf("Process failed after two overlapping rotations: %v", err), nil)
			continue
		}
		if why := verifyEvent(orig, *out.Payload.(*KPayload), k2, k2, []byte("salt-2"), []byte("info-1"), [][]byte{k1}); why != "" {
			run.Violation("history-pattern:overlapping-rotations", "after a salt-only rotation payload and a wrapper-only Rotate have both returned, a later event is not protected under the new wrapper with the new salt: "+why,
				map[string]any{"payload_yields_inside_HmacSalt": rp.yields})
		}
		run.Add("values_verified", 7)
		run.Eval(fmt.Sprintf("overlap-rot|%d", rp.yields))
	}
	_ = wrapping.WithKeyId
}
