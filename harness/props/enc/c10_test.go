package enc

import (
	"context"
	"fmt"
	"reflect"
	"strings"
	"sync"
	"testing"
	"time"

	"github.com/hashicorp/eventlogger"
	"github.com/hashicorp/eventlogger/filters/encrypt"

	"google.golang.org/protobuf/proto"

	"google.golang.org/protobuf/types/known/structpb"

	"github.com/hashicorp/eventlogger/filters/encrypt/testing/resources/protopayload"

	"verifharness/internal/cryp"
	"verifharness/internal/rt"
)

type namedStr string
type namedBytes []byte

// scramble mutates every byte slice and map reachable from v (the output), to expose shallow copies:
// the input must not change when the output is mutated.
func scramble(v reflect.Value, depth int) {
	if !v.IsValid() || depth > 40 {
		return
	}
	switch v.Kind() {
	case reflect.Ptr, reflect.Interface:
		if !v.IsNil() {
			scramble(v.Elem(), depth+1)
		}
	case reflect.Slice:
		if v.Type().Elem().Kind() == reflect.Uint8 {
			b := v.Bytes()
			for i := range b {
				b[i] ^= 0x5a
			}
			return
		}
		for i := 0; i < v.Len(); i++ {
			e := v.Index(i)
			if e.Kind() == reflect.String && e.CanSet() {
				e.SetString("SCRAMBLED")
			} else {
				scramble(e, depth+1)
			}
		}
	case reflect.Map:
		for _, k := range v.MapKeys() {
			scramble(v.MapIndex(k), depth+1)
		}
		if v.Type().Key().Kind() == reflect.String && v.Len() > 0 {
			// overwrite one entry and add one (only for element types we can build)
			et := v.Type().Elem()
			if et.Kind() == reflect.Interface && et.NumMethod() == 0 {
				v.SetMapIndex(reflect.ValueOf("scrambled-extra").Convert(v.Type().Key()), reflect.ValueOf("SCRAMBLED"))
			}
		}
	case reflect.Struct:
		if v.Type() == tTime {
			return
		}
		for i := 0; i < v.NumField(); i++ {
			if v.Type().Field(i).PkgPath != "" {
				continue
			}
			f := v.Field(i)
			if f.Kind() == reflect.String && f.CanSet() {
				f.SetString("SCRAMBLED")
			} else {
				scramble(f, depth+1)
			}
		}
	}
}

func TestC10(t *testing.T) {
	run := rt.Start(t, "C10")
	defer run.Finish()
	r := run.Rand()
	n := run.N(20000, 500000)
	created := time.Unix(1_700_000_000, 0).UTC()
	for i := 0; i < n && !run.Stop(); i++ {
		seed := r.Uint64()
		cfg := genCfgEnc(r)
		if i%64 == 0 {
			run.Progress("C10 seed=%d cfg=%s", seed, cfg)
		}
		twin := genPayload(seed, cfg)
		twinR := renderS(twin.Payload, false)
		pc, ev, res := checkC09(run, seed, cfg, false)
		wit := func(extra string) any {
			out := "<nil>"
			if res.Out != nil {
				out = renderS(res.Out.Payload, false)
				if len(out) > 1500 {
					out = out[:1500] + "..."
				}
			}
			in := twinR
			if len(in) > 1500 {
				in = in[:1500] + "..."
			}
			return map[string]any{"seed": seed, "config": cfg.String(), "root": pc.RootKind, "shape": pc.Sig, "input_before": in, "output": out, "err": fmt.Sprint(res.Err), "detail": extra}
		}
		if res.Panic != "" {
			run.Inconclusive("Process panicked (C09's subject): " + res.Panic)
			continue
		}
		// (1) the input is untouched
		after := renderS(ev.Payload, false)
		if after != twinR {
			a := after
			if len(a) > 1200 {
				a = a[:1200] + "..."
			}
			run.Violation("shape:input-modified:"+pc.RootKind, "Process modified the payload it was given", wit("input after Process: "+a))
			continue
		}
		if ev.Type != "t" || !ev.CreatedAt.Equal(created) || len(ev.Formatted) != 1 || string(ev.Formatted["pre"]) != "formatted" {
			run.Violation("shape:event-modified", "Process modified the event it was given (Type/CreatedAt/Formatted)", wit(""))
			continue
		}
		sig := ""
		if res.Err == nil && res.Out != nil {
			out := res.Out
			if cfg.allNone() || reflect.ValueOf(ev.Payload).IsZero() {
				// "forwarded unchanged" is judged on content (the library forwards the very event; a copy with
				// the same content would satisfy the statement as well)
				if out != ev {
					run.Add("allnone_forwarded_as_a_copy", 1)
				}
				if out.Type != ev.Type || !out.CreatedAt.Equal(ev.CreatedAt) || reflect.TypeOf(out.Payload) != reflect.TypeOf(ev.Payload) || renderS(out.Payload, false) != twinR {
					run.Violation("shape:not-forwarded-unchanged", "with every operation overridden to none, or a nil/zero payload, the event must be forwarded unchanged", wit(""))
				}
			} else {
				if out == ev {
					// not a verdict: an implementation may forward the very event when nothing in it needed
					// protection; whether something did is C09's leak oracle, whether the input was modified is (1)
					run.Add("same_event_forwarded_by_a_filtering_configuration", 1)
				}
				// (2) same dynamic type and shape
				if reflect.TypeOf(out.Payload) != reflect.TypeOf(ev.Payload) {
					run.Violation("shape:type-changed", fmt.Sprintf("output payload has type %T, input %T", out.Payload, ev.Payload), wit(""))
					continue
				}
				if a, b := renderS(out.Payload, true), renderS(twin.Payload, true); a != b {
					if len(a) > 1000 {
						a = a[:1000]
					}
					if len(b) > 1000 {
						b = b[:1000]
					}
					run.Violation("shape:shape-changed:"+pc.RootKind, "container lengths, keys, dynamic types or non-string values differ between input and output", wit("input shape: "+b+" | output shape: "+a))
					continue
				}
				if out.Type != ev.Type || !out.CreatedAt.Equal(ev.CreatedAt) {
					run.Violation("shape:event-fields", "the forwarded event lost its Type or CreatedAt", wit(""))
				}
				// the event's own container, the format table, keeps its keys and the values' lengths and contents
				if len(out.Formatted) != 1 || string(out.Formatted["pre"]) != "formatted" {
					run.Violation("shape:event-fields", fmt.Sprintf("the forwarded event's format table is %q, the input's holds pre=\"formatted\"", out.Formatted), wit(""))
				}
				// (3) public values preserved
				outV := reflect.ValueOf(out.Payload)
				keeps := 0
				for _, l := range pc.Leaves {
					if l.Exp != Keep || l.Nil {
						continue
					}
					keeps++
					lv, err := walk(outV, l.Path)
					if err != nil {
						run.Violation("shape:shape-changed:"+pc.RootKind, "cannot reach "+pathString(l.Path)+" in the output: "+err.Error(), wit(""))
						break
					}
					if got, ok := leafValue(lv); !ok || got != l.Canary {
						run.Violation("shape:public-not-preserved", fmt.Sprintf("public value %s came out as %.40q, original %q", pathString(l.Path), got, l.Canary), wit(""))
						break
					}
				}
				if keeps > 0 {
					sig = pc.Sig
				}
				// (4) aliasing probe: mutating the output must not reach the input
				scramble(reflect.ValueOf(out.Payload), 0)
				if a := renderS(ev.Payload, false); a != twinR {
					run.Violation("shape:aliased:"+pc.RootKind, "the output shares memory with the input: mutating the output changed the input", wit(""))
				}
			}
		}
		run.Eval(sig)
		run.SetAdd("root_kinds", pc.RootKind)
		if run.NeedSample() && sig != "" && len(pc.Leaves) > 4 {
			run.Sample(map[string]any{"seed": seed, "config": cfg.String(), "shape": pc.Sig})
		}
	}
	// every operation overridden to none: the event is forwarded unchanged whatever the payload implements -
	// also a payload with per-event wrapper info (with or without an event id), with or without a wrapper on the
	// filter. (Rotation payloads are left out: C09 wants them consumed, this clause wants them forwarded.)
	nnone := run.N(300, 6000)
	for i := 0; i < nnone && !run.Stop(); i++ {
		cr := r.Fork()
		f := &encrypt.Filter{FilterOperationOverrides: map[encrypt.DataClassification]encrypt.FilterOperation{
			encrypt.PublicClassification: encrypt.NoOperation, encrypt.SensitiveClassification: encrypt.NoOperation, encrypt.SecretClassification: encrypt.NoOperation}}
		withWrapper := cr.Bool()
		if withWrapper {
			f.Wrapper = cryp.NewWrapper(cr.Bytes(32), "k")
		}
		ip := &infoPayload{KPayload: genK(cr), id: rt.Pick(cr, []string{"ev-1", "ev-2", ""}), salt: optBytes(cr, "s"), info: optBytes(cr, "i")}
		before := fmt.Sprintf("%#v", *ip)
		ev := &eventlogger.Event{Type: "t", CreatedAt: created, Payload: ip}
		out, err := f.Process(context.Background(), ev)
		same := out != nil && out.Type == ev.Type && out.CreatedAt.Equal(ev.CreatedAt)
		if same {
			op, ok := out.Payload.(*infoPayload)
			same = ok && fmt.Sprintf("%#v", *op) == before
		}
		if err != nil || !same || fmt.Sprintf("%#v", *ip) != before {
			run.Violation("shape:not-forwarded-unchanged", fmt.Sprintf("with every operation overridden to none an event whose payload carries per-event wrapper info (event id %q, wrapper on the filter: %v) must be forwarded unchanged; forwarded with the same content: %v, err=%v", ip.id, withWrapper, same, err),
				map[string]any{"payload": before})
		}
		run.Eval(fmt.Sprintf("allnone-eventinfo|%v|%q", withWrapper, ip.id))
	}
	// the forwarded event's format table is its own: whatever a later node stores on the forwarded event does not
	// appear on the event the filter was given (which other pipelines still hold), and vice versa - for a nil, an
	// empty and a filled table
	nfmt := run.N(600, 12000)
	for i := 0; i < nfmt && !run.Stop(); i++ {
		cr := r.Fork()
		cfg := genCfgEnc(cr)
		pc := genPayload(cr.Uint64(), cfg)
		var table map[string][]byte
		kind := rt.Pick(cr, []string{"nil", "empty", "filled"})
		switch kind {
		case "empty":
			table = map[string][]byte{}
		case "filled":
			table = map[string][]byte{"pre": []byte("formatted")}
		}
		ev := &eventlogger.Event{Type: "t", CreatedAt: created, Formatted: table, Payload: pc.Payload}
		res := callProcess(buildFilter(cfg), ev)
		if res.Panic != "" || res.Err != nil || res.Out == nil || res.Out == ev {
			continue // refused, or forwarded as the very event (all-none): nothing to isolate
		}
		n0 := len(ev.Formatted)
		res.Out.FormattedAs("stored-by-a-later-node", []byte("x"))
		ev.FormattedAs("stored-on-the-original", []byte("y"))
		_, leakedBack := ev.Format("stored-by-a-later-node")
		_, leakedFwd := res.Out.Format("stored-on-the-original")
		if leakedBack || leakedFwd || len(ev.Formatted) != n0+1 {
			run.Violation("shape:aliased:format-table", fmt.Sprintf("the forwarded event shares its format table (%s on input) with the event the filter was given: a value stored on the forwarded event is visible on the original: %v, the other way round: %v", kind, leakedBack, leakedFwd),
				map[string]any{"config": cfg.String(), "table_on_input": kind})
		}
		run.Eval("fmt-table|" + kind)
	}
	// a node that is reconfigured between events (the exported FilterOperationOverrides are replaced): the
	// configuration in force when an event arrives decides
	nrec := run.N(200, 4000)
	for i := 0; i < nrec && !run.Stop(); i++ {
		cr := r.Fork()
		type sp struct {
			Pub string `class:"public"`
			Sec string `class:"secret"`
			Un  string
		}
		none := map[encrypt.DataClassification]encrypt.FilterOperation{
			encrypt.PublicClassification: encrypt.NoOperation, encrypt.SensitiveClassification: encrypt.NoOperation, encrypt.SecretClassification: encrypt.NoOperation}
		f := &encrypt.Filter{Wrapper: cryp.NewWrapper(cr.Bytes(32), "k")}
		order := rt.Pick(cr, []string{"default,none,default", "none,default,none", "default,none", "none,default"})
		var hist []string
		for _, c := range strings.Split(order, ",") {
			if c == "none" {
				f.FilterOperationOverrides = none
			} else {
				f.FilterOperationOverrides = nil
			}
			in := &sp{Pub: "pub", Sec: "SECRETCANARY", Un: "UNCLASSIFIEDCANARY"}
			out, err := f.Process(context.Background(), &eventlogger.Event{Type: "t", CreatedAt: created, Payload: in})
			hist = append(hist, c)
			if err != nil || out == nil {
				run.Violation("shape:refused:reconfigured", fmt.Sprintf("Process failed after the node was reconfigured (%v): %v", hist, err), nil)
				break
			}
			got, _ := out.Payload.(*sp)
			if got == nil {
				run.Violation("shape:type-changed", fmt.Sprintf("output payload type %T", out.Payload), nil)
				break
			}
			if c == "none" && (*got != sp{Pub: "pub", Sec: "SECRETCANARY", Un: "UNCLASSIFIEDCANARY"}) {
				run.Violation("shape:not-forwarded-unchanged", fmt.Sprintf("with every operation overridden to none (configuration history %v on one node) the event must be forwarded unchanged, got %+v", hist, *got), nil)
				break
			}
			if c == "default" && (got.Pub != "pub" || got.Sec == "SECRETCANARY" || got.Un == "UNCLASSIFIEDCANARY") {
				run.Violation("shape:public-not-preserved", fmt.Sprintf("with the default operations (configuration history %v on one node) public values are kept and the others protected, got %+v", hist, *got), nil)
				break
			}
		}
		run.Eval("reconfigured|" + order)
	}
	// values held in interface-typed struct fields and []interface{} fields (outside C09's shape grammar - what
	// the filter does to the strings in them is not judged): the forwarded payload has the same dynamic types,
	// non-string values are preserved and the input is untouched
	nif := run.N(200, 4000)
	for i := 0; i < nif && !run.Stop(); i++ {
		cr := r.Fork()
		type inner struct {
			S string `class:"secret"`
			P string `class:"public"`
			N int
		}
		type outer struct {
			I  interface{}
			T  interface{}
			N  interface{}
			PI interface{}
			L  []interface{}
			M  map[string]interface{}
		}
		ts := time.Unix(int64(cr.Intn(2_000_000_000)), 0).UTC()
		mk := func() *outer {
			return &outer{I: inner{S: "s", P: "p", N: 7}, T: ts, N: 42, PI: &inner{S: "s", P: "p", N: 8}, L: []interface{}{inner{S: "s", P: "p", N: 9}, 3.5, ts},
				M: map[string]interface{}{"role": namedStr("admin"), "n": 5, "t": ts, "raw": namedBytes("x"), "nil": nil}}
		}
		in, twin := mk(), mk()
		cfg := genCfgEnc(cr)
		res := callProcess(buildFilter(cfg), &eventlogger.Event{Type: "t", CreatedAt: created, Payload: in})
		if !reflect.DeepEqual(in, twin) {
			run.Violation("shape:input-modified:iface-fields", "Process modified a payload with interface-typed fields", map[string]any{"config": cfg.String(), "after": fmt.Sprintf("%+v", *in)})
		}
		if res.Panic != "" || res.Err != nil || res.Out == nil {
			run.Eval("iface-fields|refused")
			continue
		}
		got, ok := res.Out.Payload.(*outer)
		if !ok {
			run.Violation("shape:type-changed", fmt.Sprintf("output payload type %T", res.Out.Payload), map[string]any{"config": cfg.String()})
			continue
		}
		types := func(o *outer) string {
			s := fmt.Sprintf("I=%T T=%T N=%T PI=%T L=[", o.I, o.T, o.N, o.PI)
			for _, e := range o.L {
				s += fmt.Sprintf("%T ", e)
			}
			s += "] M={"
			for _, k := range []string{"role", "n", "t", "raw", "nil"} {
				s += fmt.Sprintf("%s:%T ", k, o.M[k])
			}
			return s + "}"
		}
		if types(got) != types(twin) {
			run.Violation("shape:type-changed:iface-fields", fmt.Sprintf("values held in interface-typed fields changed their dynamic type: input %s, forwarded %s", types(twin), types(got)), map[string]any{"config": cfg.String()})
			continue
		}
		nonString := func(o *outer) string {
			s := fmt.Sprintf("T=%v N=%v", o.T, o.N)
			if x, ok := o.I.(inner); ok {
				s += fmt.Sprintf(" I.N=%d I.P=%s", x.N, x.P)
			}
			if x, ok := o.PI.(*inner); ok && x != nil {
				s += fmt.Sprintf(" PI.N=%d PI.P=%s", x.N, x.P)
			}
			if len(o.L) == 3 {
				if x, ok := o.L[0].(inner); ok {
					s += fmt.Sprintf(" L0.N=%d L0.P=%s", x.N, x.P)
				}
				s += fmt.Sprintf(" L1=%v L2=%v", o.L[1], o.L[2])
			}
			return s + fmt.Sprintf(" len(L)=%d", len(o.L))
		}
		if !cfg.allNone() && cfg.Overrides["public"] == "" && nonString(got) != nonString(twin) {
			run.Violation("shape:non-string-not-preserved:iface-fields", fmt.Sprintf("non-string or public values held in interface-typed fields were not preserved: input %s, forwarded %s", nonString(twin), nonString(got)), map[string]any{"config": cfg.String()})
		}
		run.Eval("iface-fields|" + cfg.String())
	}
	c10Proto(run, r)
	// root structs passed by value: input untouched, no shared memory with what is forwarded
	nbv := run.N(3000, 60000)
	for i := 0; i < nbv && !run.Stop(); i++ {
		seed := r.Uint64()
		cfg := genCfgEnc(r)
		twinR := renderS(genValueStructPayload(seed, cfg).Payload, false)
		pc := genValueStructPayload(seed, cfg)
		ev := &eventlogger.Event{Type: "t", CreatedAt: created, Formatted: map[string][]byte{"pre": []byte("formatted")}, Payload: pc.Payload}
		res := callProcess(buildFilter(cfg), ev)
		wit := func(extra string) any {
			in := twinR
			if len(in) > 1500 {
				in = in[:1500] + "..."
			}
			return map[string]any{"seed": seed, "config": cfg.String(), "root": pc.RootKind, "shape": pc.Sig, "input_before": in, "err": fmt.Sprint(res.Err), "detail": extra}
		}
		if res.Panic != "" {
			run.Inconclusive("Process panicked (C09's subject): " + res.Panic)
			continue
		}
		if a := renderS(ev.Payload, false); a != twinR {
			if len(a) > 1200 {
				a = a[:1200] + "..."
			}
			run.Violation("shape:input-modified:struct-by-value", "Process modified the payload it was given (root struct passed by value)", wit("input after Process: "+a))
			continue
		}
		if res.Err == nil && res.Out != nil && reflect.TypeOf(res.Out.Payload) != reflect.TypeOf(ev.Payload) {
			run.Violation("shape:type-changed:struct-by-value", fmt.Sprintf("a root struct passed by value (%T) was forwarded as %T", ev.Payload, res.Out.Payload), wit(""))
			continue
		}
		if res.Err == nil && res.Out != nil && res.Out != ev {
			scramble(reflect.ValueOf(&res.Out.Payload).Elem(), 0)
			if a := renderS(ev.Payload, false); a != twinR {
				run.Violation("shape:aliased:struct-by-value", "the output shares memory with the input: mutating the output changed the input", wit(""))
			}
		}
		run.Eval("bv|" + pc.Sig)
	}
	// nil and zero payloads are forwarded unchanged
	f := buildFilter(encCfg{Wrapper: "present"})
	type z struct {
		A string `class:"secret"`
	}
	var np *z
	for _, p := range []interface{}{nil, np, z{}, "", 0, []string(nil), map[string]interface{}(nil)} {
		ev := &eventlogger.Event{Type: "t", Payload: p}
		res := callProcess(f, ev)
		if res.Panic != "" || res.Err != nil || res.Out == nil || res.Out.Type != "t" || !reflect.DeepEqual(res.Out.Payload, p) {
			run.Violation("shape:zero-payload", fmt.Sprintf("a nil/zero payload (%T) must be forwarded unchanged: forwarded %v err=%v panic=%s", p, res.Out != nil, res.Err, res.Panic), nil)
		}
		run.Eval(fmt.Sprintf("zero|%T", p))
	}
	// the same input event handed to several goroutines (other pipelines see the original)
	nconc := run.N(60, 2000)
	for i := 0; i < nconc && !run.Stop(); i++ {
		seed := r.Uint64()
		cfg := encCfg{Wrapper: "present"}
		pc := genPayload(seed, cfg)
		twinR := renderS(genPayload(seed, cfg).Payload, false)
		ev := &eventlogger.Event{Type: "t", CreatedAt: created, Formatted: map[string][]byte{"pre": []byte("formatted")}, Payload: pc.Payload}
		ff := buildFilter(cfg)
		var wg sync.WaitGroup
		for g := 0; g < 4; g++ {
			wg.Add(1)
			go func() {
				defer wg.Done()
				callProcess(ff, ev)
			}()
		}
		wg.Wait()
		if renderS(ev.Payload, false) != twinR {
			run.Violation("shape:input-modified-concurrent", "concurrent Process calls on one event modified it", map[string]any{"seed": seed})
		}
		run.Eval("conc|" + pc.Sig)
	}
	c10Repeat(run, r, created)
	c10SameTypeHistory(run, r, created)
}

// c10SameTypeHistory: payloads of one Go type whose interface-typed field holds something else every time - a
// number, a string, then a map, a pointer to a struct, a slice. Whatever a node (or the package) learnt from the
// payloads it has seen, every payload is copied before it is filtered: the one it is given stays as it was.
func c10SameTypeHistory(run *rt.Run, r *rt.Rand, created time.Time) {
	type sub struct {
		S string `class:"secret"`
		N int
	}
	type rec struct {
		ID      string `class:"public"`
		Details interface{}
		Extra   interface{}
	}
	mk := func(k int, tag string) *rec {
		p := &rec{ID: "id-" + tag}
		vals := []func() interface{}{
			func() interface{} { return 5 },
			func() interface{} { return "plain-" + tag },
			func() interface{} { return map[string]interface{}{"secret": "CANARY-" + tag, "n": 3} },
			func() interface{} { return &sub{S: "CANARY-" + tag, N: 4} },
			func() interface{} { return []string{"CANARY-" + tag, "b"} },
			func() interface{} { return map[string][]byte{"k": []byte("CANARY-" + tag)} },
		}
		p.Details = vals[k%len(vals)]()
		p.Extra = vals[(k/len(vals))%len(vals)]()
		return p
	}
	n := run.N(72, 2000)
	shared := buildFilter(encCfg{Wrapper: "present"})
	for i := 0; i < n && !run.Stop(); i++ {
		tag := fmt.Sprint(i)
		in, twin := mk(i, tag), mk(i, tag)
		f := shared
		if r.Bool() {
			f = buildFilter(encCfg{Wrapper: "present"})
		}
		res := callProcess(f, &eventlogger.Event{Type: "t", CreatedAt: created, Payload: in})
		run.Eval(fmt.Sprintf("same-type-history|%T|%T", in.Details, in.Extra))
		if !reflect.DeepEqual(in, twin) {
			run.Violation("shape:input-modified:same-type-history", fmt.Sprintf("Process modified the payload it was given (payload number %d of one struct type, interface-typed fields holding %T and %T)", i+1, twin.Details, twin.Extra),
				map[string]any{"before": renderS(twin, false), "after": renderS(in, false), "panic": res.Panic, "err": fmt.Sprint(res.Err)})
			return
		}
		if res.Out != nil && res.Err == nil {
			if got, ok := res.Out.Payload.(*rec); !ok {
				run.Violation("shape:type-changed", fmt.Sprintf("output payload type %T", res.Out.Payload), nil)
				return
			} else if got.ID != twin.ID || reflect.TypeOf(got.Details) != reflect.TypeOf(twin.Details) || reflect.TypeOf(got.Extra) != reflect.TypeOf(twin.Extra) {
				run.Violation("shape:type-changed:iface-fields", fmt.Sprintf("payload number %d: public id %q -> %q, interface-typed fields %T,%T -> %T,%T", i+1, twin.ID, got.ID, twin.Details, twin.Extra, got.Details, got.Extra), nil)
				return
			}
		}
	}
}

// c10Repeat: one Filter node is handed the very same *Event more than once - a node shared by several pipelines
// gets the same event once per pipeline, and a sender may reuse its Event struct for the next payload. Every call
// works on a private copy of the event as it is *now*: what a later node did to an earlier forwarded copy (stored a
// format, changed a value) does not show in the next one, and a new payload set into the same Event is what comes out.
func c10Repeat(run *rt.Run, r *rt.Rand, created time.Time) {
	n := run.N(400, 20000)
	for i := 0; i < n && !run.Stop(); i++ {
		cfg := encCfg{Wrapper: "present"}
		seedA, seedB := r.Uint64(), r.Uint64()
		pa, pb := genPayload(seedA, cfg), genPayload(seedB, cfg)
		twinA, twinB := genPayload(seedA, cfg), genPayload(seedB, cfg)
		f := buildFilter(cfg)
		ev := &eventlogger.Event{Type: "t", CreatedAt: created, Formatted: map[string][]byte{"pre": []byte("formatted")}, Payload: pa.Payload}
		wit := func(extra string) any {
			return map[string]any{"seed_a": seedA, "seed_b": seedB, "shape_a": pa.Sig, "shape_b": pb.Sig, "detail": extra}
		}
		r1 := callProcess(f, ev)
		if r1.Panic != "" || r1.Err != nil || r1.Out == nil {
			run.Add("repeat_first_call_refused", 1)
			continue
		}
		if r1.Out == ev {
			// a nil/zero payload is forwarded unchanged (the very event): nothing private to compare
			run.Add("repeat_same_event_forwarded", 1)
			continue
		}
		// a later node of the first pipeline works on what it was forwarded
		r1.Out.FormattedAs("json", []byte("{\"stored\":\"downstream\"}"))
		scramble(reflect.ValueOf(r1.Out.Payload), 0)
		r2 := callProcess(f, ev)
		run.Eval("repeat|" + pa.Sig)
		if r2.Panic != "" || r2.Err != nil || r2.Out == nil {
			run.Violation("shape:repeat-refused", fmt.Sprintf("the same event is refused when the node is handed it a second time: err=%v panic=%s", r2.Err, r2.Panic), wit(""))
			continue
		}
		if _, ok := r2.Out.Formatted["json"]; ok {
			run.Violation("shape:repeat-not-private", "the event forwarded for the second call carries a format a later node stored on the copy forwarded for the first call", wit(""))
			continue
		}
		if reflect.TypeOf(r2.Out.Payload) != reflect.TypeOf(twinA.Payload) {
			run.Violation("shape:type-changed", fmt.Sprintf("second call on the same event: output payload has type %T, input %T", r2.Out.Payload, twinA.Payload), wit(""))
			continue
		}
		if a, b := renderS(r2.Out.Payload, true), renderS(twinA.Payload, true); a != b {
			run.Violation("shape:repeat-not-private", "the event forwarded for the second call does not have the shape of the input: it shows what was done to the copy forwarded for the first call", wit("input shape: "+trunc(b, 800)+" | output shape: "+trunc(a, 800)))
			continue
		}
		bad := false
		outV := reflect.ValueOf(r2.Out.Payload)
		for _, l := range pa.Leaves {
			if l.Exp != Keep || l.Nil {
				continue
			}
			lv, err := walk(outV, l.Path)
			if err != nil {
				continue
			}
			if got, ok := leafValue(lv); !ok || got != l.Canary {
				run.Violation("shape:public-not-preserved", fmt.Sprintf("second call on the same event: public value %s came out as %.40q, original %q", pathString(l.Path), got, l.Canary), wit(""))
				bad = true
				break
			}
		}
		if bad {
			continue
		}
		if renderS(ev.Payload, false) != renderS(twinA.Payload, false) {
			run.Violation("shape:input-modified:repeat", "Process modified the payload it was given (second call on the same event)", wit(""))
			continue
		}
		// the sender reuses its Event for the next payload
		ev.Payload = pb.Payload
		r3 := callProcess(f, ev)
		if r3.Panic != "" || r3.Err != nil || r3.Out == nil {
			run.Add("repeat_reuse_refused", 1)
			continue
		}
		if reflect.TypeOf(r3.Out.Payload) != reflect.TypeOf(twinB.Payload) {
			run.Violation("shape:type-changed", fmt.Sprintf("an Event struct reused for the next payload: output payload has type %T, input %T", r3.Out.Payload, twinB.Payload), wit(""))
			continue
		}
		if a, b := renderS(r3.Out.Payload, true), renderS(twinB.Payload, true); a != b {
			run.Violation("shape:shape-changed:reused-event", "an Event struct reused for the next payload: the forwarded payload does not have the shape of the payload given", wit("input shape: "+trunc(b, 800)+" | output shape: "+trunc(a, 800)))
		}
	}
}

func trunc(s string, n int) string {
	if len(s) > n {
		return s[:n] + "..."
	}
	return s
}

// sameNonStrings compares two structpb values: same kinds everywhere, equal numbers / bools / nulls, same list
// lengths and struct keys (strings may differ: they are what the filter protects).
func sameNonStrings(a, b *structpb.Value, path string) string {
	if a == nil || b == nil {
		if a != b {
			return path + ": one side is missing"
		}
		return ""
	}
	ka, kb := fmt.Sprintf("%T", a.GetKind()), fmt.Sprintf("%T", b.GetKind())
	if ka != kb {
		return fmt.Sprintf("%s: kind %s became %s", path, ka, kb)
	}
	switch x := a.GetKind().(type) {
	case *structpb.Value_NumberValue:
		if x.NumberValue != b.GetNumberValue() {
			return fmt.Sprintf("%s: number %v became %v", path, x.NumberValue, b.GetNumberValue())
		}
	case *structpb.Value_BoolValue:
		if x.BoolValue != b.GetBoolValue() {
			return fmt.Sprintf("%s: bool changed", path)
		}
	case *structpb.Value_ListValue:
		la, lb := x.ListValue.GetValues(), b.GetListValue().GetValues()
		if len(la) != len(lb) {
			return fmt.Sprintf("%s: list length %d became %d", path, len(la), len(lb))
		}
		for i := range la {
			if why := sameNonStrings(la[i], lb[i], fmt.Sprintf("%s[%d]", path, i)); why != "" {
				return why
			}
		}
	case *structpb.Value_StructValue:
		fa, fb := x.StructValue.GetFields(), b.GetStructValue().GetFields()
		if len(fa) != len(fb) {
			return fmt.Sprintf("%s: %d members became %d", path, len(fa), len(fb))
		}
		for k, va := range fa {
			vb, ok := fb[k]
			if !ok {
				return fmt.Sprintf("%s.%s: member lost", path, k)
			}
			if why := sameNonStrings(va, vb, path+"."+k); why != "" {
				return why
			}
		}
	}
	return ""
}

// c10Proto: the repository's protobuf payload with struct attributes that hold nulls, bools, numbers, lists and
// nested structs next to strings: every non-string value is preserved, kinds and shapes stay, the input is untouched.
func c10Proto(run *rt.Run, r *rt.Rand) {
	n := run.N(300, 8000)
	for i := 0; i < n && !run.Stop(); i++ {
		cr := r.Fork()
		mk := func() *structpb.Struct {
			m := map[string]interface{}{
				protopayload.IntField:            float64(cr.Intn(100)),
				protopayload.UntaggedStringField: "some string",
				"nullv":                          nil,
				"boolv":                          cr.Bool(),
				"listv":                          []interface{}{nil, float64(cr.Intn(9)), "s", true, map[string]interface{}{"in": nil, "n": 1.5}},
				"nested":                         map[string]interface{}{"nullv": nil, "num": float64(cr.Intn(9)), "str": "x", "list": []interface{}{nil}},
			}
			if cr.Bool() {
				m[protopayload.TaggedStringField] = "tagged string"
			}
			s, err := structpb.NewStruct(m)
			if err != nil {
				panic(err)
			}
			return s
		}
		p := &protopayload.WithTaggable{PublicString: "pub", SensitiveString: "sens", TaggableAttributes: mk(), NontaggableAttributes: mk()}
		twin := proto.Clone(p).(*protopayload.WithTaggable)
		cfg := genCfgEnc(cr)
		res := callProcess(buildFilter(cfg), &eventlogger.Event{Type: "t", Payload: p})
		if !proto.Equal(p, twin) {
			run.Violation("shape:input-modified:proto", "Process modified the protobuf payload it was given", map[string]any{"config": cfg.String()})
		}
		if res.Panic != "" || res.Err != nil || res.Out == nil {
			run.Eval("proto-nonstring|refused")
			continue
		}
		op, ok := res.Out.Payload.(*protopayload.WithTaggable)
		if !ok {
			run.Violation("shape:type-changed", fmt.Sprintf("output payload type %T", res.Out.Payload), map[string]any{"config": cfg.String()})
			continue
		}
		for name, pair := range map[string][2]*structpb.Struct{"TaggableAttributes": {twin.TaggableAttributes, op.TaggableAttributes}, "NontaggableAttributes": {twin.NontaggableAttributes, op.NontaggableAttributes}} {
			if why := sameNonStrings(structpb.NewStructValue(pair[0]), structpb.NewStructValue(pair[1]), name); why != "" {
				run.Violation("shape:non-string-not-preserved:proto", "a non-string value of a protobuf struct attribute was not preserved: "+why, map[string]any{"config": cfg.String()})
				break
			}
		}
		run.Eval("proto-nonstring|" + cfg.String())
		// an application type that embeds a generated message (and so satisfies proto.Message itself) is a struct
		// payload like any other: same dynamic type, its own public and non-string fields preserved
		if i%4 == 0 {
			ea := &embAudit{Struct: mk(), Actor: "alice", Attempt: 3 + i}
			etwin := &embAudit{Struct: proto.Clone(ea.Struct).(*structpb.Struct), Actor: ea.Actor, Attempt: ea.Attempt}
			eres := callProcess(buildFilter(cfg), &eventlogger.Event{Type: "t", Payload: ea})
			if !proto.Equal(ea.Struct, etwin.Struct) || ea.Actor != etwin.Actor || ea.Attempt != etwin.Attempt {
				run.Violation("shape:input-modified:proto", "Process modified a payload that embeds a protobuf message", map[string]any{"config": cfg.String()})
			}
			if eres.Panic == "" && eres.Err == nil && eres.Out != nil && !cfg.allNone() {
				got, ok := eres.Out.Payload.(*embAudit)
				switch {
				case !ok:
					run.Violation("shape:type-changed", fmt.Sprintf("a payload of type %T (a struct embedding a generated protobuf message) was forwarded as %T", ea, eres.Out.Payload), map[string]any{"config": cfg.String()})
				case got.Attempt != etwin.Attempt:
					run.Violation("shape:non-string-not-preserved:proto", fmt.Sprintf("the int field of a struct embedding a protobuf message came out as %d, given %d", got.Attempt, etwin.Attempt), map[string]any{"config": cfg.String()})
				case got.Actor != etwin.Actor:
					if op, set := cfg.Overrides["public"]; !set || op == "" {
						run.Violation("shape:public-not-preserved", fmt.Sprintf("the public field of a struct embedding a protobuf message came out as %q, given %q", got.Actor, etwin.Actor), map[string]any{"config": cfg.String()})
					}
				}
			}
			run.Eval("proto-embedded|" + cfg.String())
		}
	}
}

// embAudit carries a generated protobuf message together with data of its own; the message is embedded, as one
// does to give a generated type more methods.
type embAudit struct {
	*structpb.Struct
	Actor   string `class:"public"`
	Attempt int
}
