package enc

import (
	"context"
	"errors"
	"fmt"
	"reflect"
	"sort"
	"strings"
	"time"

	"github.com/hashicorp/eventlogger"
	"github.com/hashicorp/eventlogger/filters/encrypt"
	wrapping "github.com/hashicorp/go-kms-wrapping/v2"
	"github.com/hashicorp/go-kms-wrapping/v2/aead"

	"verifharness/internal/cryp"
	"verifharness/internal/rt"
)

var baseKey = []byte("0123456789abcdef0123456789abcdef")
var filterSalt = []byte("filter-salt")
var filterInfo = []byte("filter-info")

// failWrapper fails its k-th Encrypt. It is not an *aead.Wrapper, so key derivation for HMAC
// refuses it as well (an "unknown wrapper type" is a failing wrapper, too).
type failWrapper struct {
	*aead.Wrapper
	failAt int
	n      int
}

var errWrap = errors.New("injected wrapper failure")

func (w *failWrapper) Encrypt(ctx context.Context, pt []byte, opt ...wrapping.Option) (*wrapping.BlobInfo, error) {
	w.n++
	if w.n == w.failAt {
		return nil, errWrap
	}
	return w.Wrapper.Encrypt(ctx, pt, opt...)
}

func buildFilter(cfg encCfg) *encrypt.Filter {
	f := &encrypt.Filter{HmacSalt: filterSalt, HmacInfo: filterInfo}
	if cfg.Overrides != nil {
		f.FilterOperationOverrides = map[encrypt.DataClassification]encrypt.FilterOperation{}
		for k, v := range cfg.Overrides {
			f.FilterOperationOverrides[encrypt.DataClassification(k)] = encrypt.FilterOperation(v)
		}
	}
	if cfg.Ignore {
		f.IgnoreTypes = []reflect.Type{tIgnPtr}
	}
	switch cfg.Wrapper {
	case "present":
		f.Wrapper = cryp.NewWrapper(baseKey, "base")
	case "failing":
		f.Wrapper = &failWrapper{Wrapper: cryp.NewWrapper(baseKey, "base"), failAt: cfg.FailAt}
	}
	return f
}

func genCfgEnc(r *rt.Rand) encCfg {
	c := encCfg{Wrapper: "present"}
	switch r.Intn(10) {
	case 0:
		c.Wrapper = "absent"
	case 1:
		c.Wrapper = "failing"
		c.FailAt = r.Range(1, 4)
	}
	c.Ignore = r.Intn(4) == 0
	if r.Intn(3) > 0 {
		c.Overrides = map[string]string{}
		opsv := []string{"", "redact", "encrypt", "hmac-sha256", "bogus"}
		for _, cl := range []string{"public", "sensitive", "secret"} {
			if r.Intn(2) == 0 {
				o := rt.Pick(r, opsv)
				if o == "bogus" && r.Intn(3) > 0 {
					o = rt.Pick(r, opsv[:4])
				}
				c.Overrides[cl] = o
			}
		}
	}
	return c
}

// collectStrings gathers every string and []byte reachable from v (exported fields only).
func collectStrings(v reflect.Value, out *[]string, depth int) {
	if !v.IsValid() || depth > 40 {
		return
	}
	switch v.Kind() {
	case reflect.String:
		*out = append(*out, v.String())
	case reflect.Ptr, reflect.Interface:
		if !v.IsNil() {
			collectStrings(v.Elem(), out, depth+1)
		}
	case reflect.Slice:
		if v.Type().Elem().Kind() == reflect.Uint8 {
			*out = append(*out, string(v.Bytes()))
			return
		}
		for i := 0; i < v.Len(); i++ {
			collectStrings(v.Index(i), out, depth+1)
		}
	case reflect.Array:
		for i := 0; i < v.Len(); i++ {
			collectStrings(v.Index(i), out, depth+1)
		}
	case reflect.Map:
		it := v.MapRange()
		for it.Next() {
			collectStrings(it.Key(), out, depth+1)
			collectStrings(it.Value(), out, depth+1)
		}
	case reflect.Struct:
		if v.Type() == tTime {
			return
		}
		for i := 0; i < v.NumField(); i++ {
			if v.Type().Field(i).PkgPath != "" {
				continue
			}
			collectStrings(v.Field(i), out, depth+1)
		}
	}
}

// render is a deterministic deep rendering (follows pointers, exported fields, sorted map keys).
// With mask=true string and []byte contents are hidden (nil-ness of []byte kept): the "shape".
func render(v reflect.Value, mask bool, b *strings.Builder, depth int) {
	if !v.IsValid() {
		b.WriteString("<invalid>")
		return
	}
	if depth > 40 {
		b.WriteString("<deep>")
		return
	}
	switch v.Kind() {
	case reflect.String:
		if mask {
			b.WriteString("S")
		} else {
			fmt.Fprintf(b, "%q", v.String())
		}
	case reflect.Ptr:
		if v.IsNil() {
			b.WriteString("nil-" + v.Type().String())
			return
		}
		b.WriteString("&")
		render(v.Elem(), mask, b, depth+1)
	case reflect.Interface:
		if v.IsNil() {
			b.WriteString("nil-iface")
			return
		}
		b.WriteString("iface(" + v.Elem().Type().String() + "):")
		render(v.Elem(), mask, b, depth+1)
	case reflect.Slice:
		if v.Type().Elem().Kind() == reflect.Uint8 {
			switch {
			case v.IsNil():
				b.WriteString("B-nil")
			case mask:
				b.WriteString("B")
			default:
				fmt.Fprintf(b, "B%q", string(v.Bytes()))
			}
			return
		}
		if v.IsNil() {
			b.WriteString("nilslice-" + v.Type().String())
			return
		}
		fmt.Fprintf(b, "[%d:", v.Len())
		for i := 0; i < v.Len(); i++ {
			render(v.Index(i), mask, b, depth+1)
			b.WriteString(",")
		}
		b.WriteString("]")
	case reflect.Map:
		if v.IsNil() {
			b.WriteString("nilmap-" + v.Type().String())
			return
		}
		keys := v.MapKeys()
		sort.Slice(keys, func(i, j int) bool { return fmt.Sprint(keys[i].Interface()) < fmt.Sprint(keys[j].Interface()) })
		b.WriteString("map{")
		for _, k := range keys {
			fmt.Fprintf(b, "%v=", k.Interface())
			render(v.MapIndex(k), mask, b, depth+1)
			b.WriteString(",")
		}
		b.WriteString("}")
	case reflect.Struct:
		if v.Type() == tTime {
			b.WriteString(v.Interface().(time.Time).UTC().Format(time.RFC3339Nano))
			return
		}
		b.WriteString(v.Type().Name() + "{")
		for i := 0; i < v.NumField(); i++ {
			if v.Type().Field(i).PkgPath != "" {
				continue
			}
			b.WriteString(v.Type().Field(i).Name + ":")
			render(v.Field(i), mask, b, depth+1)
			b.WriteString(",")
		}
		b.WriteString("}")
	default:
		fmt.Fprintf(b, "%v", v.Interface())
	}
}

func renderS(x interface{}, mask bool) string {
	var b strings.Builder
	render(reflect.ValueOf(x), mask, &b, 0)
	return b.String()
}

// processResult runs Process with panic capture.
type processResult struct {
	Out   *eventlogger.Event
	Err   error
	Panic string
}

func callProcess(f *encrypt.Filter, ev *eventlogger.Event) (res processResult) {
	defer func() {
		if p := recover(); p != nil {
			res.Panic = fmt.Sprint(p)
		}
	}()
	res.Out, res.Err = f.Process(context.Background(), ev)
	return
}

func leafValue(v reflect.Value) (string, bool) {
	for v.IsValid() && (v.Kind() == reflect.Interface || v.Kind() == reflect.Ptr) {
		if v.IsNil() {
			return "", false
		}
		v = v.Elem()
	}
	if !v.IsValid() {
		return "", false
	}
	switch {
	case v.Kind() == reflect.String:
		return v.String(), true
	case v.Kind() == reflect.Slice && v.Type().Elem().Kind() == reflect.Uint8:
		return string(v.Bytes()), true
	}
	return "", false
}

// verifyLeaf checks one output value against its expectation. key/salt/info: configuration in force.
func verifyLeaf(l leaf, got string, key, salt, info []byte) string {
	switch l.Exp {
	case ProtRedact:
		if got != cryp.Redacted {
			return fmt.Sprintf("expected %q, got %q", cryp.Redacted, got)
		}
	case ProtEncrypt:
		pt, err := cryp.Open(got, key)
		if err != nil {
			return fmt.Sprintf("does not decrypt under the wrapper in force: %v (value %.40q)", err, got)
		}
		if string(pt) != l.Canary {
			return fmt.Sprintf("decrypts to %q, original %q", pt, l.Canary)
		}
	case ProtHmac:
		if want := cryp.Hmac([]byte(l.Canary), key, salt, info); got != want {
			return fmt.Sprintf("digest %q, recomputed %q", got, want)
		}
	case ProtAny, ErrOrProt:
		if cryp.Form(got) == "plain" {
			return fmt.Sprintf("value %.40q is in none of the protected forms", got)
		}
	}
	return ""
}

func describeLeaves(ls []leaf) []string {
	var out []string
	for _, l := range ls {
		out = append(out, fmt.Sprintf("%s %s canary=%s", pathString(l.Path), l.Exp, l.Canary))
	}
	return out
}
