package enc

import (
	"fmt"
	"reflect"
	"strings"
	"time"

	"github.com/hashicorp/eventlogger"
	"github.com/hashicorp/eventlogger/filters/encrypt/testing/resources/protopayload"
	"google.golang.org/protobuf/types/known/structpb"
	"google.golang.org/protobuf/types/known/timestamppb"
	"google.golang.org/protobuf/types/known/wrapperspb"

	"verifharness/internal/rt"
)

type protoLeaf struct {
	name   string
	canary string
	exp    Expect
	get    func(p *protopayload.WithTaggable) (string, bool)
}

// genProto builds the repository's own protobuf payload (Taggable through structpb maps) with
// canaries in every string/bytes position.
func genProto(r *rt.Rand, cfg encCfg, n *int) (*protopayload.WithTaggable, []protoLeaf) {
	c := func() string { *n++; return fmt.Sprintf("PCANARY%dq%xz", *n, r.Uint64()&0xffff) }
	p := &protopayload.WithTaggable{CreateTime: timestamppb.New(time.Unix(1_700_000_000, 0))}
	var ls []protoLeaf
	add := func(name, canary string, exp Expect, get func(p *protopayload.WithTaggable) (string, bool)) {
		ls = append(ls, protoLeaf{name, canary, exp, get})
	}
	cl := func(class string) Expect {
		if class == "" {
			return cfg.classify(false, "", "")
		}
		return cfg.classify(true, class, "")
	}
	p.PublicString = c()
	add("PublicString", p.PublicString, Keep, func(p *protopayload.WithTaggable) (string, bool) { return p.PublicString, true })
	p.SensitiveString = c()
	add("SensitiveString", p.SensitiveString, cl("sensitive"), func(p *protopayload.WithTaggable) (string, bool) { return p.SensitiveString, true })
	p.SecretString = c()
	add("SecretString", p.SecretString, cl("secret"), func(p *protopayload.WithTaggable) (string, bool) { return p.SecretString, true })
	p.UnclassifiedString = c()
	add("UnclassifiedString", p.UnclassifiedString, cl(""), func(p *protopayload.WithTaggable) (string, bool) { return p.UnclassifiedString, true })
	p.PublicBytes = []byte(c())
	add("PublicBytes", string(p.PublicBytes), Keep, func(p *protopayload.WithTaggable) (string, bool) { return string(p.PublicBytes), true })
	p.SensitiveBytes = []byte(c())
	add("SensitiveBytes", string(p.SensitiveBytes), cl("sensitive"), func(p *protopayload.WithTaggable) (string, bool) { return string(p.SensitiveBytes), true })
	p.SecretBytes = []byte(c())
	add("SecretBytes", string(p.SecretBytes), cl("secret"), func(p *protopayload.WithTaggable) (string, bool) { return string(p.SecretBytes), true })
	p.UnclassifiedBytes = []byte(c())
	add("UnclassifiedBytes", string(p.UnclassifiedBytes), cl(""), func(p *protopayload.WithTaggable) (string, bool) { return string(p.UnclassifiedBytes), true })
	p.PublicStringValue = wrapperspb.String(c())
	add("PublicStringValue", p.PublicStringValue.Value, Keep, func(p *protopayload.WithTaggable) (string, bool) {
		return p.PublicStringValue.GetValue(), p.PublicStringValue != nil
	})
	p.SensitiveStringValue = wrapperspb.String(c())
	add("SensitiveStringValue", p.SensitiveStringValue.Value, cl("sensitive"), func(p *protopayload.WithTaggable) (string, bool) {
		return p.SensitiveStringValue.GetValue(), p.SensitiveStringValue != nil
	})
	p.SecretStringValue = wrapperspb.String(c())
	add("SecretStringValue", p.SecretStringValue.Value, cl("secret"), func(p *protopayload.WithTaggable) (string, bool) {
		return p.SecretStringValue.GetValue(), p.SecretStringValue != nil
	})
	p.UnclassifiedStringValue = wrapperspb.String(c())
	add("UnclassifiedStringValue", p.UnclassifiedStringValue.Value, cl(""), func(p *protopayload.WithTaggable) (string, bool) {
		return p.UnclassifiedStringValue.GetValue(), p.UnclassifiedStringValue != nil
	})
	p.SensitiveBytesValue = wrapperspb.Bytes([]byte(c()))
	add("SensitiveBytesValue", string(p.SensitiveBytesValue.Value), cl("sensitive"), func(p *protopayload.WithTaggable) (string, bool) {
		return string(p.SensitiveBytesValue.GetValue()), p.SensitiveBytesValue != nil
	})
	p.UnclassifiedBytesValue = wrapperspb.Bytes([]byte(c()))
	add("UnclassifiedBytesValue", string(p.UnclassifiedBytesValue.Value), cl(""), func(p *protopayload.WithTaggable) (string, bool) {
		return string(p.UnclassifiedBytesValue.GetValue()), p.UnclassifiedBytesValue != nil
	})
	mk := func(withTagged bool) (*structpb.Struct, map[string]string) {
		m := map[string]interface{}{protopayload.IntField: float64(r.Intn(100))}
		cs := map[string]string{}
		if withTagged && r.Intn(4) > 0 {
			cs[protopayload.TaggedStringField] = c()
			m[protopayload.TaggedStringField] = cs[protopayload.TaggedStringField]
		}
		if r.Intn(4) > 0 {
			cs[protopayload.UntaggedStringField] = c()
			m[protopayload.UntaggedStringField] = cs[protopayload.UntaggedStringField]
		}
		s, err := structpb.NewStruct(m)
		if err != nil {
			panic(err)
		}
		return s, cs
	}
	if r.Intn(5) > 0 {
		s, cs := mk(true)
		p.TaggableAttributes = s
		for k, v := range cs {
			k := k
			exp := cl("")
			if k == protopayload.TaggedStringField {
				exp = cfg.classify(true, "sensitive", "redact")
			}
			add("TaggableAttributes."+k, v, exp, func(p *protopayload.WithTaggable) (string, bool) {
				f, ok := p.TaggableAttributes.GetFields()[k]
				return f.GetStringValue(), ok
			})
		}
	}
	if r.Intn(3) > 0 {
		s, cs := mk(false)
		p.NontaggableAttributes = s
		for k, v := range cs {
			k := k
			add("NontaggableAttributes."+k, v, cl(""), func(p *protopayload.WithTaggable) (string, bool) {
				f, ok := p.NontaggableAttributes.GetFields()[k]
				return f.GetStringValue(), ok
			})
		}
	}
	if r.Intn(3) > 0 {
		e := &protopayload.EmbeddedTaggable{EPublicString: c(), ESecretString: c()}
		p.EmbeddedTaggable = e
		add("Embedded.EPublicString", e.EPublicString, Keep, func(p *protopayload.WithTaggable) (string, bool) {
			return p.EmbeddedTaggable.GetEPublicString(), p.EmbeddedTaggable != nil
		})
		add("Embedded.ESecretString", e.ESecretString, cl("secret"), func(p *protopayload.WithTaggable) (string, bool) {
			return p.EmbeddedTaggable.GetESecretString(), p.EmbeddedTaggable != nil
		})
		if r.Intn(3) > 0 {
			s, cs := mk(true)
			e.ETaggableAttributes = s
			for k, v := range cs {
				k := k
				exp := cl("")
				if k == protopayload.TaggedStringField {
					exp = cfg.classify(true, "sensitive", "")
				}
				add("Embedded.ETaggableAttributes."+k, v, exp, func(p *protopayload.WithTaggable) (string, bool) {
					f, ok := p.EmbeddedTaggable.GetETaggableAttributes().GetFields()[k]
					return f.GetStringValue(), ok
				})
			}
		}
	}
	return p, ls
}

// c09Proto runs the repository's own Taggable protobuf payload through the filter (C09 and C10 clauses).
func c09Proto(run *rt.Run, r *rt.Rand, n int) {
	cnt := 0
	for i := 0; i < n && !run.Stop(); i++ {
		cr := r.Fork()
		cfg := genCfgEnc(cr)
		for _, o := range cfg.Overrides {
			if o == "bogus" {
				cfg.Overrides = nil
				break
			}
		}
		p, leaves := genProto(cr, cfg, &cnt)
		var payload interface{} = p
		root := "*WithTaggable"
		if cr.Intn(4) == 0 {
			payload, root = []*protopayload.WithTaggable{p}, "[]*WithTaggable"
		}
		ev := &eventlogger.Event{Type: "t", Payload: payload}
		res := callProcess(buildFilter(cfg), ev)
		wit := func(extra string) any {
			var ls []string
			for _, l := range leaves {
				ls = append(ls, fmt.Sprintf("%s %s canary=%s", l.name, l.exp, l.canary))
			}
			out := "<nil>"
			if res.Out != nil {
				out = fmt.Sprintf("%+v", res.Out.Payload)
				if len(out) > 1500 {
					out = out[:1500]
				}
			}
			return map[string]any{"payload": root, "config": cfg.String(), "leaves": ls, "output": out, "err": fmt.Sprint(res.Err), "detail": extra}
		}
		run.Eval("proto|" + root + "|" + cfg.String())
		if res.Panic != "" {
			run.Violation("shape:panic:proto", "Process panicked on the repository's own protobuf payload: "+res.Panic, wit(""))
			continue
		}
		if res.Err != nil {
			if res.Out != nil {
				run.Violation("shape:error-with-event", "Process returned an error AND an event", wit(""))
			}
			if cfg.Wrapper == "present" {
				run.Violation("shape:refused:proto", "Process refused the repository's own protobuf payload: "+res.Err.Error(), wit(""))
			}
			continue
		}
		if cfg.allNone() || res.Out == nil {
			continue
		}
		var op *protopayload.WithTaggable
		switch v := res.Out.Payload.(type) {
		case *protopayload.WithTaggable:
			op = v
		case []*protopayload.WithTaggable:
			if len(v) == 1 {
				op = v[0]
			}
		}
		if op == nil {
			run.Violation("shape:type-changed", fmt.Sprintf("output payload type %T", res.Out.Payload), wit(""))
			continue
		}
		var strs []string
		collectStrings(reflect.ValueOf(res.Out.Payload), &strs, 0)
		all := strings.Join(strs, "\x00")
		for _, l := range leaves {
			got, ok := l.get(op)
			if l.exp.protected() {
				if strings.Contains(all, l.canary) {
					run.Violation("shape:leak:proto:"+l.name, fmt.Sprintf("plaintext of %s (%s) is readable in the forwarded protobuf payload", l.name, l.exp), wit(""))
					break
				}
				if ok {
					if why := verifyLeaf(leaf{Canary: l.canary, Exp: l.exp}, got, baseKey, filterSalt, filterInfo); why != "" {
						run.Violation("shape:wrong-protection:proto:"+l.exp.String(), fmt.Sprintf("%s must be %s: %s", l.name, l.exp, why), wit(""))
						break
					}
				}
			}
			if l.exp == Keep && (!ok || got != l.canary) {
				run.Violation("shape:public-not-preserved:proto", fmt.Sprintf("public value %s came out as %q", l.name, got), wit(""))
				break
			}
		}
		if p.PublicString == "" || !strings.HasPrefix(p.SensitiveString, "PCANARY") {
			run.Violation("shape:input-modified:proto", "Process modified the protobuf payload it was given", wit(""))
		}
	}
}
