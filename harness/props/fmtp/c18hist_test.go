package fmtp

import (
	"bytes"
	"context"
	crand "crypto/rand"
	"encoding/base64"
	"errors"
	"fmt"
	"io"
	"net/url"
	"strings"
	"sync"
	"sync/atomic"
	"time"

	"github.com/hashicorp/eventlogger"
	"github.com/hashicorp/eventlogger/formatter_filters/cloudevents"

	"verifharness/internal/rt"
)

// ceSignature inspects a stored document: returns its id, whether it carries serialized/serialized_hmac,
// and, if it does, the index of the signer (of those given) that really produced that signature for the
// serialized bytes (-1: none of them).
func ceSignature(stored []byte, signers []*recSigner) (id string, signed bool, by int, problem string) {
	doc, err := decodeNumber(stored)
	obj, _ := doc.(map[string]interface{})
	if err != nil || obj == nil {
		return "", false, -1, "the stored value is not a JSON object"
	}
	id, _ = obj["id"].(string)
	ser, hasSer := obj["serialized"].(string)
	mac, hasMac := obj["serialized_hmac"].(string)
	if !hasSer && !hasMac {
		return id, false, -1, ""
	}
	if !hasSer || !hasMac || ser == "" || mac == "" {
		return id, true, -1, "only one of serialized / serialized_hmac is present"
	}
	B, berr := base64.RawURLEncoding.DecodeString(ser)
	if berr != nil {
		return id, true, -1, "serialized is not base64url"
	}
	by = -1
	for i, s := range signers {
		s.mu.Lock()
		sig, called := s.calls[string(B)]
		s.mu.Unlock()
		if called && sig == mac {
			by = i
		}
	}
	unsigned := map[string]interface{}{}
	for k, v := range obj {
		if k != "serialized" && k != "serialized_hmac" {
			unsigned[k] = v
		}
	}
	bdoc, _ := decodeNumber(B)
	if fmt.Sprint(bdoc) != fmt.Sprint(interface{}(unsigned)) {
		return id, true, by, "serialized does not decode to the unsigned document"
	}
	return id, true, by, ""
}

// c18Histories: one formatter instance used for many events, with Rotate calls between them (sequential
// histories against a model of the signer in force) and concurrently (ids stay unique, every listed event is
// signed by a signer that was installed at some point, unlisted ones never).
func c18Histories(run *rt.Run, r *rt.Rand) {
	ctx := context.Background()
	src := &url.URL{Scheme: "https", Host: "example.com", Path: "/h"}
	newFilter := func(cr *rt.Rand) (*cloudevents.FormatterFilter, string) {
		f := &cloudevents.FormatterFilter{Source: src, SignEventTypes: []string{"listed-type", "another"}}
		key := string(cloudevents.FormatJSON)
		switch cr.Intn(3) {
		case 0:
			f.Format = cloudevents.FormatJSON
		case 1:
			f.Format = cloudevents.FormatText
			key = string(cloudevents.FormatText)
		}
		return f, key
	}
	// ---- sequential histories ----
	nh := run.N(400, 30000)
	for i := 0; i < nh && !run.Stop(); i++ {
		cr := r.Fork()
		f, key := newFilter(cr)
		var signers []*recSigner
		cur := -1
		if cr.Bool() {
			signers = append(signers, &recSigner{})
			f.Signer = signers[0].sign
			cur = 0
		}
		var hist []string
		nsteps := cr.Range(2, 9)
		for s := 0; s < nsteps; s++ {
			switch x := cr.Intn(10); {
			case x < 2:
				ns := &recSigner{fail: cr.Intn(5) == 0}
				signers = append(signers, ns)
				hist = append(hist, fmt.Sprintf("Rotate(signer#%d fail=%v)", len(signers)-1, ns.fail))
				if err := f.Rotate(ns.sign); err != nil {
					run.Violation("history-pattern:rotate", "Rotate(signer) failed: "+err.Error(), map[string]any{"history": hist})
				}
				cur = len(signers) - 1
			case x < 3:
				hist = append(hist, "Rotate(nil)")
				if err := f.Rotate(nil); err == nil {
					run.Violation("history-pattern:rotate-nil", "Rotate(nil) must be rejected", map[string]any{"history": hist})
				}
			default:
				typ := "listed-type"
				if cr.Intn(3) == 0 {
					typ = "unlisted-type"
				}
				var payload interface{} = &cePlain{A: "h", N: s}
				wantID := ""
				if cr.Intn(3) == 0 {
					wantID = fmt.Sprintf("hid-%d-%d", i, s)
					payload = &ceID{cePlain: cePlain{A: "h", N: s}, id: wantID}
				}
				ev := &eventlogger.Event{Type: eventlogger.EventType(typ), CreatedAt: time.Unix(int64(1_600_000_000+s), 0).UTC(), Formatted: map[string][]byte{}, Payload: payload}
				hist = append(hist, fmt.Sprintf("Process(%s id=%q)", typ, wantID))
				ncalls := make([]int, len(signers))
				for k, sg := range signers {
					ncalls[k] = sg.n
				}
				out, err := f.Process(ctx, ev)
				stored, has := ev.Format(key)
				mustSign := cur >= 0 && typ == "listed-type"
				wit := map[string]any{"history": append([]string(nil), hist...), "stored": string(stored), "err": fmt.Sprint(err), "signer_in_force": cur}
				for k, sg := range signers {
					if sg.n != ncalls[k] && (k != cur || !mustSign) {
						run.Violation("history-pattern:history-wrong-signer-called", fmt.Sprintf("signer #%d was called although signer #%d is in force (must sign: %v)", k, cur, mustSign), wit)
					}
				}
				if mustSign && signers[cur].fail {
					if err == nil || out != nil || has {
						run.Violation("history-pattern:history-unsigned-forwarded", "the signer in force failed but the event was forwarded or a document stored", wit)
					}
					break
				}
				if err != nil || out != ev || !has {
					run.Violation("history-pattern:history-forwarding", "a valid event was not formatted and forwarded", wit)
					break
				}
				id, signed, by, problem := ceSignature(stored, signers)
				switch {
				case problem != "":
					run.Violation("history-pattern:history-document", problem, wit)
				case mustSign && !signed:
					run.Violation("history-pattern:history-unsigned", fmt.Sprintf("signer #%d is in force and the type is listed, but the forwarded document carries no serialized / serialized_hmac", cur), wit)
				case mustSign && by != cur:
					run.Violation("history-pattern:history-stale-signer", fmt.Sprintf("the document was signed by signer #%d, signer #%d is in force", by, cur), wit)
				case !mustSign && signed:
					run.Violation("history-pattern:history-signed-unlisted", "the document is signed although no signer is in force or the type is not listed", wit)
				}
				if wantID != "" && id != wantID || id == "" {
					run.Violation("history-pattern:id", fmt.Sprintf("id %q (payload ID() %q)", id, wantID), wit)
				}
				if wantID == "" {
					if _, dup := ceSeenIDs.LoadOrStore(id, true); dup {
						run.Violation("history-pattern:id-not-unique", "a generated id repeats: "+id, wit)
					}
				}
			}
		}
		run.Eval(fmt.Sprintf("history|%d|%s", nsteps, strings.Join(hist, ",")))
	}
	// ---- concurrent use of one formatter ----
	nc := run.N(6, 300)
	for i := 0; i < nc && !run.Stop(); i++ {
		cr := r.Fork()
		f, key := newFilter(cr)
		signers := []*recSigner{{}, {}, {}, {}}
		f.Signer = signers[0].sign
		ng, per := cr.Range(3, 8), cr.Range(300, 1500)
		run.Progress("C18 concurrent %d goroutines=%d events=%d", i, ng, per)
		type res struct {
			typ    string
			stored []byte
			err    error
		}
		results := make([][]res, ng)
		var wg sync.WaitGroup
		var stop int32
		bar := rt.NewBarrier(ng + 1)
		for g := 0; g < ng; g++ {
			wg.Add(1)
			gr := cr.Fork()
			go func(g int) {
				defer wg.Done()
				bar.Wait()
				for k := 0; k < per; k++ {
					typ := "listed-type"
					if gr.Intn(4) == 0 {
						typ = "unlisted-type"
					}
					ev := &eventlogger.Event{Type: eventlogger.EventType(typ), CreatedAt: time.Unix(1_600_000_000, int64(k)).UTC(), Formatted: map[string][]byte{}, Payload: &cePlain{A: "c", N: g*1_000_000 + k}}
					_, err := f.Process(ctx, ev)
					b, _ := ev.Format(key)
					results[g] = append(results[g], res{typ, append([]byte(nil), b...), err})
				}
			}(g)
		}
		var rot sync.WaitGroup
		rot.Add(1)
		rotations := 0
		go func() {
			defer rot.Done()
			bar.Wait()
			for k := 1; atomic.LoadInt32(&stop) == 0; k++ {
				f.Rotate(signers[k%len(signers)].sign)
				rotations++
				for y := 0; y < 20; y++ {
					time.Sleep(0)
				}
			}
		}()
		wg.Wait()
		atomic.StoreInt32(&stop, 1)
		rot.Wait()
		ids := map[string]bool{}
		bySigner := map[int]int{}
		for g := range results {
			for _, x := range results[g] {
				wit := map[string]any{"stored": string(x.stored), "type": x.typ, "err": fmt.Sprint(x.err), "goroutines": ng}
				if x.err != nil || len(x.stored) == 0 {
					run.Violation("history-pattern:concurrent-forwarding", "a valid event was not formatted under concurrent use", wit)
					continue
				}
				id, signed, by, problem := ceSignature(x.stored, signers)
				switch {
				case problem != "":
					run.Violation("history-pattern:concurrent-document", problem, wit)
				case x.typ == "listed-type" && (!signed || by < 0):
					run.Violation("history-pattern:concurrent-unsigned", "a listed event formatted while a signer was always in force is not signed by any signer ever installed", wit)
				case x.typ != "listed-type" && signed:
					run.Violation("history-pattern:concurrent-signed-unlisted", "an unlisted event was signed", wit)
				}
				bySigner[by]++
				if id == "" || ids[id] {
					run.Violation("history-pattern:id-not-unique", fmt.Sprintf("generated id %q repeats among %d concurrently formatted events", id, ng*per), wit)
				}
				ids[id] = true
				if !bytes.Contains(x.stored, []byte(id)) {
					run.Violation("history-pattern:concurrent-document", "id not in document", wit)
				}
			}
		}
		run.Add("concurrent_events", ng*per)
		run.Add("concurrent_rotations", rotations)
		run.Eval(fmt.Sprintf("concurrent|%d|%d|signers-seen=%d", ng, per/100, len(bySigner)))
	}
}

// flakyEntropy stands in for crypto/rand.Reader: it fails on the calls its pattern names (the entropy source of a
// sandboxed or exhausted process does fail).
type flakyEntropy struct {
	real    io.Reader
	n       int
	pattern func(n int) bool
}

func (f *flakyEntropy) Read(p []byte) (int, error) {
	f.n++
	if f.pattern(f.n) {
		return 0, errors.New("injected entropy failure")
	}
	return f.real.Read(p)
}

// c18Entropy: "the id is the payload's ID() or otherwise fresh and unique", also for events that share their type
// and creation time and when the entropy source fails some or all of the time: such an event is either refused
// with an error (nothing stored, nothing forwarded) or gets an id no other event has. Runs last and alone in its
// process (the entropy source is process-wide); the real source is put back afterwards.
func c18Entropy(run *rt.Run, r *rt.Rand) {
	ctx := context.Background()
	realReader := crand.Reader
	defer func() { crand.Reader = realReader }()
	n := run.N(40, 1500)
	for i := 0; i < n && !run.Stop(); i++ {
		cr := r.Fork()
		kind := rt.Pick(cr, []string{"always", "every-2nd", "first-3", "after-2", "never"})
		fe := &flakyEntropy{real: realReader}
		switch kind {
		case "always":
			fe.pattern = func(int) bool { return true }
		case "every-2nd":
			fe.pattern = func(n int) bool { return n%2 == 0 }
		case "first-3":
			fe.pattern = func(n int) bool { return n <= 3 }
		case "after-2":
			fe.pattern = func(n int) bool { return n > 2 }
		default:
			fe.pattern = func(int) bool { return false }
		}
		src, _ := url.Parse("https://verif.example/entropy")
		f := &cloudevents.FormatterFilter{Source: src}
		key := string(cloudevents.FormatJSON)
		created := time.Unix(int64(1_650_000_000+cr.Intn(1000)), int64(cr.Intn(1000))*1_000_000).UTC()
		nev := cr.Range(2, 6)
		run.Progress("C18 entropy %d failing=%s events=%d", i, kind, nev)
		seen := map[string]int{}
		refused := 0
		crand.Reader = fe
		for k := 0; k < nev; k++ {
			ev := &eventlogger.Event{Type: "same-type", CreatedAt: created, Formatted: map[string][]byte{}, Payload: &cePlain{A: "e", N: k}}
			out, err := f.Process(ctx, ev)
			stored, has := ev.Format(key)
			wit := map[string]any{"entropy_source_fails": kind, "events_with_the_same_type_and_creation_time": nev, "event": k, "err": fmt.Sprint(err), "stored": string(stored)}
			if err != nil {
				refused++
				if out != nil || has {
					crand.Reader = realReader
					run.Violation("history-pattern:entropy-error-but-forwarded", "Process returned an error but forwarded the event or stored a document", wit)
				}
				continue
			}
			id, _, _, problem := ceSignature(stored, nil)
			if out != ev || !has || problem != "" || id == "" {
				crand.Reader = realReader
				run.Violation("history-pattern:id", fmt.Sprintf("no usable document / id for an accepted event: %s id=%q", problem, id), wit)
				continue
			}
			if prev, dup := seen[id]; dup {
				crand.Reader = realReader
				run.Violation("history-pattern:id-not-unique", fmt.Sprintf("generated id %q was given to events %d and %d (same type, same creation time) while the entropy source was failing (%s)", id, prev, k, kind), wit)
			}
			seen[id] = k
		}
		crand.Reader = realReader
		run.Add("entropy_events_refused", refused)
		run.Add("entropy_events_accepted", nev-refused)
		run.Eval(fmt.Sprintf("entropy|%s|%d|%d", kind, nev, refused))
	}
}
