package fmtp

import (
	"bytes"
	"context"
	"encoding/json"
	"errors"
	"fmt"
	"reflect"
	"runtime"
	"sort"
	"sync"
	"sync/atomic"
	"testing"
	"time"

	"github.com/anishathalye/porcupine"
	"github.com/hashicorp/eventlogger"

	"verifharness/internal/rt"
)

var errPredicate = errors.New("predicate failure")

type kept struct {
	ev      *eventlogger.Event
	stored  []byte // copy of the bytes right after Process
	desc    string
	created time.Time
	typ     string
	image   interface{}
}

// checkJSONLine verifies the stored json line of an event against its type, creation time and payload image.
func checkJSONLine(line []byte, typ string, created time.Time, image interface{}) string {
	if len(line) == 0 || line[len(line)-1] != '\n' {
		return "the stored value is not newline-terminated"
	}
	if bytes.Count(line, []byte("\n")) != 1 {
		return "the stored value spans several lines"
	}
	if !json.Valid(line) {
		return "the stored value is not valid JSON"
	}
	doc, err := decodeNumber(line)
	if err != nil {
		return "the stored value does not decode: " + err.Error()
	}
	obj, ok := doc.(map[string]interface{})
	if !ok {
		return "the stored value is not a JSON object"
	}
	var keys []string
	for k := range obj {
		keys = append(keys, k)
	}
	sort.Strings(keys)
	if fmt.Sprint(keys) != "[created_at event_type payload]" {
		return fmt.Sprintf("the object has members %v, expected exactly created_at, event_type, payload", keys)
	}
	ts, _ := obj["created_at"].(string)
	pt, err := time.Parse(time.RFC3339Nano, ts)
	if err != nil || !pt.Equal(created) {
		return fmt.Sprintf("created_at %q does not decode to the event's creation time %v", ts, created)
	}
	if et, _ := obj["event_type"].(string); et != typ {
		return fmt.Sprintf("event_type %q differs from the event's type %q", et, typ)
	}
	if !reflect.DeepEqual(obj["payload"], image) {
		return fmt.Sprintf("payload member %v differs from the JSON image of the payload %v", obj["payload"], image)
	}
	return ""
}

func TestC14(t *testing.T) {
	run := rt.Start(t, "C14")
	defer run.Finish()
	r := run.Rand()
	ctx := context.Background()
	n := run.N(20000, 1000000)
	var group []*kept
	flush := func() {
		// older events keep their value: formatting later events must not disturb earlier ones
		for _, k := range group {
			cur, ok := k.ev.Format(eventlogger.JSONFormat)
			if !ok || !bytes.Equal(cur, k.stored) {
				run.Violation("history-pattern:stored-value-changed", "the json value stored for an event changed after later events were formatted", map[string]any{"event": k.desc, "stored_then": string(k.stored), "stored_now": string(cur)})
				continue
			}
			if why := checkJSONLine(cur, k.typ, k.created, k.image); why != "" {
				run.Violation("history-pattern:json-line-later", why, map[string]any{"event": k.desc, "stored": string(cur)})
			}
		}
		group = group[:0]
	}
	jf := &eventlogger.JSONFormatter{}
	for i := 0; i < n && !run.Stop(); i++ {
		cr := r.Fork()
		payload, _ := genJSONValue(cr, cr.Range(0, 3))
		// encodability is defined by encoding/json itself (the generator's own bookkeeping can be off when
		// a map key is drawn twice)
		_, merr := json.Marshal(payload)
		encodable := merr == nil
		typ := genType(cr)
		created := time.Unix(int64(cr.Intn(2_000_000_000)), int64(cr.Intn(1_000_000_000))).In(time.FixedZone("z", (cr.Intn(27)-13)*1800))
		switch cr.Intn(30) {
		case 0:
			created = time.Date(10000+cr.Intn(100), 1, 1, 0, 0, 0, 0, time.UTC) // year out of range: unencodable
			encodable = false
		case 1:
			created = time.Time{}
		}
		node := cr.Intn(3) // 0 JSONFormatter, 1 JSONFormatterFilter, 2 JSONFormatterFilter with predicate
		predicate := "none"
		var nodeImpl eventlogger.Node = jf
		var sawEvent interface{}
		if node >= 1 {
			ff := &eventlogger.JSONFormatterFilter{}
			if node == 2 {
				predicate = rt.Pick(cr, []string{"true", "false", "error", "true-error"})
				p := predicate
				ff.Predicate = func(e interface{}) (bool, error) {
					sawEvent = e
					switch p {
					case "true":
						return true, nil
					case "false":
						return false, nil
					case "true-error":
						return true, errPredicate
					}
					return false, errPredicate
				}
			}
			nodeImpl = ff
		}
		var formatted map[string][]byte
		if cr.Intn(4) > 0 {
			formatted = map[string][]byte{"other": []byte("untouched")}
		}
		// an event that was formatted before (another formatter earlier in the pipeline, an earlier payload):
		// the line stored now must be the image of the payload as it is now
		var stale []byte
		if formatted != nil && cr.Intn(4) == 0 {
			stale = []byte(rt.Pick(cr, []string{"{\"created_at\":\"2001-01-01T00:00:00Z\",\"event_type\":\"earlier\",\"payload\":\"earlier payload\"}\n", "not json at all", ""}))
			formatted[eventlogger.JSONFormat] = stale
		}
		ev := &eventlogger.Event{Type: eventlogger.EventType(typ), CreatedAt: created, Formatted: formatted, Payload: payload}
		before := snapshotValue(payload)
		if i%64 == 0 {
			run.Progress("C14 case %d node=%d predicate=%s type=%q payload=%.200s", i, node, predicate, typ, before)
		}
		out, err := nodeImpl.Process(ctx, ev)
		desc := fmt.Sprintf("node=%d predicate=%s type=%q created=%v payload=%.300s", node, predicate, typ, created, before)
		if stale != nil {
			desc += fmt.Sprintf(" (json value present before: %q)", stale)
		}
		wit := func(extra string) any {
			st, _ := ev.Format(eventlogger.JSONFormat)
			return map[string]any{"case": desc, "stored_json": string(st), "err": fmt.Sprint(err), "forwarded": out != nil, "detail": extra}
		}
		if after := snapshotValue(ev.Payload); after != before {
			run.Violation("history-pattern:payload-altered", "the formatter altered the payload", wit("after: "+after))
		}
		if string(ev.Type) != typ || !ev.CreatedAt.Equal(created) {
			run.Violation("history-pattern:event-altered", "the formatter altered the event's type or creation time", wit(""))
		}
		if o, ok := ev.Format("other"); formatted != nil && (!ok || string(o) != "untouched") {
			run.Violation("history-pattern:format-table-altered", "the formatter disturbed another format's value", wit(""))
		}
		stored, has := ev.Format(eventlogger.JSONFormat)
		if !encodable {
			if err == nil || out != nil {
				run.Violation("history-pattern:unencodable-accepted", "the payload (or creation time) cannot be encoded but the formatter did not fail", wit(""))
			}
			if has && (stale == nil || !bytes.Equal(stored, stale)) {
				run.Violation("history-pattern:unencodable-stored", "a json value was stored although encoding failed", wit(""))
			}
			run.Eval("unencodable|" + fmt.Sprint(node))
			continue
		}
		image, ierr := jsonImage(payload)
		if ierr != nil {
			run.Inconclusive("generator/encoder disagreement on encodability: " + ierr.Error())
			continue
		}
		if !has {
			run.Violation("history-pattern:not-stored", "no json value was stored for an encodable event: "+fmt.Sprint(err), wit(""))
			continue
		}
		if why := checkJSONLine(stored, typ, created, image); why != "" {
			run.Violation("history-pattern:json-line", why, wit(why))
		}
		// forwarding rule
		switch predicate {
		case "none", "true":
			if err != nil || out != ev {
				run.Violation("history-pattern:forwarding", fmt.Sprintf("predicate %s: the very event must be forwarded without error (out==in %v, err=%v)", predicate, out == ev, err), wit(""))
			}
		case "false":
			if err != nil || out != nil {
				run.Violation("history-pattern:forwarding", fmt.Sprintf("predicate false: the event must be dropped without error (out nil %v, err=%v)", out == nil, err), wit(""))
			}
		case "error", "true-error":
			if err == nil || out != nil {
				run.Violation("history-pattern:forwarding", fmt.Sprintf("predicate %s: an error from the predicate is an error and nothing is forwarded (err=%v, forwarded=%v)", predicate, err, out != nil), wit(""))
			}
		}
		if predicate != "none" && sawEvent != interface{}(ev) {
			run.Add("predicate_not_given_the_event", 1) // what the predicate is handed is not part of the statement
		}
		group = append(group, &kept{ev: ev, stored: append([]byte(nil), stored...), desc: desc, created: created, typ: typ, image: image})
		if len(group) >= 24 {
			flush()
		}
		run.Eval(fmt.Sprintf("%d|%s|%T|%d", node, predicate, payload, len(stored)/16))
		if run.NeedSample() && len(stored) > 120 {
			run.Sample(map[string]any{"case": desc, "stored_json": string(stored)})
		}
	}
	flush()

	// ---- Filter ---------------------------------------------------------------------------------------------
	for i := 0; i < run.N(300, 5000); i++ {
		pk := rt.Pick(r, []string{"true", "false", "error", "true-error"})
		var saw *eventlogger.Event
		f := &eventlogger.Filter{Predicate: func(e *eventlogger.Event) (bool, error) {
			saw = e
			switch pk {
			case "true":
				return true, nil
			case "false":
				return false, nil
			case "true-error":
				return true, errPredicate
			}
			return false, errPredicate
		}}
		ev := &eventlogger.Event{Type: "t", Payload: i}
		out, err := f.Process(ctx, ev)
		okc := saw != nil // the predicate was consulted (with which object is not part of the statement)
		switch pk {
		case "true":
			okc = okc && out == ev && err == nil
		case "false":
			okc = okc && out == nil && err == nil
		default:
			okc = okc && out == nil && err != nil
		}
		if !okc {
			run.Violation("history-pattern:filter", fmt.Sprintf("Filter with predicate %s: out==in %v out nil %v err=%v", pk, out == ev, out == nil, err), nil)
		}
		run.Eval("filter|" + pk)
	}

	// ---- one Filter node used by several goroutines at once: every call is judged by its own event ----------
	nfc := run.N(20, 600)
	for i := 0; i < nfc && !run.Stop(); i++ {
		cr := r.Fork()
		f := &eventlogger.Filter{Predicate: func(e *eventlogger.Event) (bool, error) {
			switch e.Payload.(int) % 3 {
			case 0:
				return true, nil
			case 1:
				return false, nil
			}
			return false, errPredicate
		}}
		ng, per := cr.Range(2, 8), cr.Range(200, 1000)
		bad := make([]string, ng)
		var wg sync.WaitGroup
		bar := rt.NewBarrier(ng)
		for g := 0; g < ng; g++ {
			wg.Add(1)
			go func(g int) {
				defer wg.Done()
				bar.Wait()
				for k := 0; k < per && bad[g] == ""; k++ {
					ev := &eventlogger.Event{Type: "t", Payload: g + k}
					out, err := f.Process(ctx, ev)
					switch (g + k) % 3 {
					case 0:
						if out != ev || err != nil {
							bad[g] = fmt.Sprintf("predicate true: forwarded=%v err=%v", out == ev, err)
						}
					case 1:
						if out != nil || err != nil {
							bad[g] = fmt.Sprintf("predicate false: forwarded=%v err=%v", out != nil, err)
						}
					default:
						if out != nil || err == nil {
							bad[g] = fmt.Sprintf("predicate error: forwarded=%v err=%v", out != nil, err)
						}
					}
				}
			}(g)
		}
		wg.Wait()
		for g := range bad {
			if bad[g] != "" {
				run.Violation("history-pattern:filter-concurrent", "one Filter used by "+fmt.Sprint(ng)+" goroutines: a call was not judged by its own event's predicate outcome: "+bad[g], nil)
				break
			}
		}
		run.Eval(fmt.Sprintf("filter-conc|%d", ng))
	}

	// ---- Event.FormattedAs / Format: race-free last-writer-wins table ---------------------------------
	nt := run.N(600, 20000)
	for i := 0; i < nt && !run.Stop(); i++ {
		cr := r.Fork()
		ng, nops := cr.Range(2, 8), cr.Range(5, 40)
		ev := &eventlogger.Event{Type: "t"}
		if cr.Bool() {
			ev.Formatted = map[string][]byte{}
		}
		formats := []string{"json", "text", "x"}[:cr.Range(1, 3)]
		run.Progress("C14 table %d goroutines=%d ops=%d nilmap=%v", i, ng, nops, ev.Formatted == nil)
		type top struct {
			client    int
			write     bool
			format    string
			val       string
			ok        bool
			call, ret int64
		}
		var mu sync.Mutex
		var ops []top
		bar := rt.NewBarrier(ng)
		var wg sync.WaitGroup
		for g := 0; g < ng; g++ {
			wg.Add(1)
			gr := cr.Fork()
			go func(g int) {
				defer wg.Done()
				bar.Wait()
				for k := 0; k < nops; k++ {
					o := top{client: g, format: rt.Pick(gr, formats)}
					// (a goroutine may well start with a read: looking up a format on an event that has no table
					// yet is an ordinary thing to do)
					if gr.Intn(2) == 0 || (k == 0 && g%2 == 0) {
						o.write = true
						o.val = fmt.Sprintf("v-%d-%d", g, k)
						var stored []byte
						if gr.Intn(8) == 0 {
							// an empty (or nil) value is a value: it replaces what was there and is present afterwards
							o.val = ""
							if gr.Bool() {
								stored = []byte{}
							}
						} else {
							stored = []byte(o.val)
						}
						o.call = rt.Tick()
						ev.FormattedAs(o.format, stored)
						o.ret = rt.Tick()
					} else {
						o.call = rt.Tick()
						b, ok := ev.Format(o.format)
						o.ret = rt.Tick()
						o.val, o.ok = string(b), ok
					}
					mu.Lock()
					ops = append(ops, o)
					mu.Unlock()
					if gr.Intn(3) == 0 {
						runtime.Gosched()
					}
				}
			}(g)
		}
		wg.Wait()
		// epilogue: a sequential read per format
		for _, f := range formats {
			o := top{client: 99, format: f, call: rt.Tick()}
			b, ok := ev.Format(f)
			o.ret = rt.Tick()
			o.val, o.ok = string(b), ok
			ops = append(ops, o)
		}
		for _, f := range formats {
			var po []porcupine.Operation
			for _, o := range ops {
				if o.format == f {
					po = append(po, porcupine.Operation{ClientId: o.client % 100, Input: o, Call: o.call, Return: o.ret})
				}
			}
			cm := map[int]int{}
			for k := range po {
				c, ok := cm[po[k].ClientId]
				if !ok {
					c = len(cm)
					cm[po[k].ClientId] = c
				}
				po[k].ClientId = c
			}
			model := porcupine.Model{
				Init: func() interface{} { return "\x00absent" },
				Step: func(st, in, out interface{}) (bool, interface{}) {
					o := in.(top)
					if o.write {
						return true, o.val
					}
					if !o.ok {
						return st.(string) == "\x00absent", st
					}
					return st.(string) == o.val, st
				},
			}
			switch res := porcupine.CheckOperationsTimeout(model, po, 20*time.Second); res {
			case porcupine.Illegal:
				var hs []string
				for _, o := range ops {
					if o.format == f {
						hs = append(hs, fmt.Sprintf("[%d-%d g%d] write=%v val=%q ok=%v", o.call, o.ret, o.client, o.write, o.val, o.ok))
					}
				}
				sort.Strings(hs)
				run.Violation("history-pattern:format-table-not-linearizable", "FormattedAs/Format on one event do not behave as a last-writer-wins table (a completed store was lost or a stale value read)",
					map[string]any{"format": f, "started_with_nil_table": ev.Formatted == nil, "history": hs})
			case porcupine.Unknown:
				run.Inconclusive("porcupine timed out on a format-table history")
			default:
				run.Add("porcupine_ok", 1)
			}
		}
		run.Eval(fmt.Sprintf("table|%d|%d|%d", ng, nops, len(formats)))
	}

	// ---- first stores on a fresh event: overlapping first writers (own key each, released by a spin barrier) must
	// all be readable afterwards; single writer per key, so the oracle is direct ---------------------------------
	nf := run.N(6000, 150000)
	for i := 0; i < nf && !run.Stop(); i++ {
		cr := r.Fork()
		ng := cr.Range(2, 6)
		ev := &eventlogger.Event{Type: "t"}
		preset := cr.Intn(4) == 0
		if preset {
			ev.Formatted = map[string][]byte{}
		}
		var viaNode eventlogger.Node
		switch cr.Intn(4) {
		case 0:
			viaNode = &eventlogger.JSONFormatter{}
		case 1:
			viaNode = &eventlogger.JSONFormatterFilter{}
		}
		nodeErr := ""
		if viaNode != nil {
			ev.Payload = map[string]interface{}{"n": i}
		}
		var arrived int32
		var wg sync.WaitGroup
		for g := 0; g < ng; g++ {
			wg.Add(1)
			go func(g int) {
				defer wg.Done()
				atomic.AddInt32(&arrived, 1)
				for atomic.LoadInt32(&arrived) < int32(ng) {
					runtime.Gosched()
				}
				if g == 0 && viaNode != nil {
					// one of the writers is a formatter node at work on the same event (siblings below one node
					// are handed the same event, each in its own goroutine)
					if out, err := viaNode.Process(ctx, ev); err != nil || out != ev {
						nodeErr = fmt.Sprintf("forwarded=%v err=%v", out == ev, err)
					}
					return
				}
				ev.FormattedAs(fmt.Sprintf("k%d", g), []byte(fmt.Sprintf("v%d-%d", i, g)))
			}(g)
		}
		wg.Wait()
		if viaNode != nil {
			if b, ok := ev.Format(eventlogger.JSONFormat); nodeErr != "" || !ok || len(b) == 0 || b[len(b)-1] != '\n' {
				run.Violation("history-pattern:format-table-first-store-lost", fmt.Sprintf("a JSON formatter node formatted the event while %d other writers stored their formats: %s; Format(json) afterwards gives %q,%v", ng-1, nodeErr, b, ok),
					map[string]any{"writers": ng, "table_preset": preset, "node": fmt.Sprintf("%T", viaNode)})
			}
		}
		for g := 0; g < ng; g++ {
			if g == 0 && viaNode != nil {
				continue
			}
			b, ok := ev.Format(fmt.Sprintf("k%d", g))
			if !ok || string(b) != fmt.Sprintf("v%d-%d", i, g) {
				run.Violation("history-pattern:format-table-first-store-lost", fmt.Sprintf("FormattedAs(%q) returned on a fresh event, but Format afterwards gives %q,%v", fmt.Sprintf("k%d", g), b, ok),
					map[string]any{"writers": ng, "table_preset": preset})
			}
		}
		run.Eval(fmt.Sprintf("first|%d|%v|%T", ng, preset, viaNode))
	}
	c14SameObject(run, r)
}

// c14SameObject: one formatter node formats event after event; consecutive events may carry the same type, the
// same creation time and the very same payload object (a map or slice the caller reuses, a payload another node
// changed in place). Every line is the image of the payload as it is when the event is formatted.
func c14SameObject(run *rt.Run, r *rt.Rand) {
	ctx := context.Background()
	n := run.N(120, 6000)
	for i := 0; i < n && !run.Stop(); i++ {
		created := time.Unix(int64(r.Intn(2_000_000_000)), 0).UTC()
		typ := genType(r)
		var nodes []eventlogger.Node
		if r.Bool() {
			nodes = []eventlogger.Node{&eventlogger.JSONFormatter{}}
		} else {
			nodes = []eventlogger.Node{&eventlogger.JSONFormatterFilter{}}
		}
		m := map[string]interface{}{"user": "alice", "token": "s3cret", "n": float64(0)}
		ctr := []interface{}{float64(0), float64(0), float64(0)}
		var payload interface{} = m
		kind := "map"
		if r.Intn(3) == 0 {
			payload, kind = ctr, "slice"
		}
		for step := 0; step < r.Range(2, 5); step++ {
			// the object changes in place between two events
			m["n"], ctr[step%3] = float64(step), float64(step+1)
			if step == 1 {
				m["token"] = "[redacted]"
			}
			ev := &eventlogger.Event{Type: eventlogger.EventType(typ), CreatedAt: created, Payload: payload}
			out, err := nodes[0].Process(ctx, ev)
			if err != nil || out == nil {
				run.Violation("history-pattern:same-object-refused", fmt.Sprintf("step %d: Process returned %v, %v for an encodable payload", step, out != nil, err), map[string]any{"payload_kind": kind})
				break
			}
			line, ok := out.Format("json")
			image, ierr := jsonImage(payload)
			if !ok || ierr != nil {
				run.Violation("history-pattern:json-line", "no json value stored", map[string]any{"payload_kind": kind, "step": step})
				break
			}
			if why := checkJSONLine(line, typ, created, image); why != "" {
				run.Violation("history-pattern:json-line", fmt.Sprintf("event %d formatted by the same node with the same type, creation time and payload object (changed in place since the previous event): %s", step+1, why), map[string]any{"payload_kind": kind, "line": string(line)})
				break
			}
		}
		run.Eval(fmt.Sprintf("same-object|%s|%T", kind, nodes[0]))
	}
}
