// Package fmtp holds the monitors for the formatter nodes (C14 JSON formatters, Filter and the
// Event format table; C18 cloudevents formatter).
package fmtp

import (
	"bytes"
	"encoding/json"
	"fmt"
	"math"
	"reflect"
	"strings"
	"time"

	"verifharness/internal/rt"
)

var nastyStrings = []string{
	"", "plain", "with \"quotes\" and \\backslash\\", "line\nbreak\r\ttab", "nul\x00byte", "ctl\x01\x1f\x7f",
	" line sep  ", "<html>&amp;</html>", "emoji 😀 ünïcödé 日本語", "bad utf8 \xff\xfe\xc3(", "\xc3", "\\u0041",
	strings.Repeat("long ", 50),
	// text that spells an escape sequence: a literal backslash followed by u003c / u0026 / u003e, with one or two
	// backslashes in front (a regular expression, a JSON document carried as a string)
	"\\u003cscript\\u003e", "a\\\\u0026b", "re: \\u003e|\\u003c <&>", "\\\\", "\\",
}

// genJSONValue draws a payload value. encodable=false when encoding/json must refuse it.
func genJSONValue(r *rt.Rand, depth int) (v interface{}, encodable bool) {
	x := r.Intn(100)
	switch {
	case x < 18:
		return rt.Pick(r, nastyStrings) + fmt.Sprint(r.Intn(100)), true
	case x < 28:
		return rt.Pick(r, []interface{}{int64(math.MaxInt64), int64(math.MinInt64), uint64(math.MaxUint64), int(0), int8(-128), uint16(65535), int32(r.Intn(1 << 30))}), true
	case x < 38:
		return rt.Pick(r, []interface{}{0.0, math.Copysign(0, -1), 5e-324, math.MaxFloat64, -1.5, 1e21, 1e-7, float32(3.25), float64(r.Intn(1000)) / 7}), true
	case x < 41:
		return rt.Pick(r, []interface{}{math.NaN(), math.Inf(1), math.Inf(-1), float32(math.Inf(1))}), false
	case x < 44:
		return rt.Pick(r, []interface{}{make(chan int), func() {}, complex(1, 2)}), false
	case x < 50:
		return rt.Pick(r, []interface{}{true, false, nil}), true
	case x < 54:
		return []byte(rt.Pick(r, nastyStrings)), true
	case x < 58:
		return time.Unix(int64(r.Intn(2_000_000_000)), int64(r.Intn(1_000_000_000))).In(time.FixedZone("z", (r.Intn(27)-13)*3600)), true
	case x < 60:
		return json.Number(fmt.Sprint(r.Intn(1000))), true
	case x < 62:
		// an error value: encoding/json renders it by its exported fields (none: {}), and so must the line
		return fmt.Errorf("an error value %d", r.Intn(100)), true
	}
	if depth <= 0 {
		return "leaf", true
	}
	switch r.Intn(4) {
	case 0:
		n := r.Intn(4)
		m := map[string]interface{}{}
		ok := true
		for i := 0; i < n; i++ {
			e, eok := genJSONValue(r, depth-1)
			m[rt.Pick(r, nastyStrings)+fmt.Sprint(i)] = e
			ok = ok && eok
		}
		return m, ok
	case 1:
		n := r.Intn(4)
		s := make([]interface{}, n)
		ok := true
		for i := range s {
			var eok bool
			s[i], eok = genJSONValue(r, depth-1)
			ok = ok && eok
		}
		return s, ok
	case 2:
		// a struct built at run time, with json tags
		n := r.Range(1, 4)
		var fs []reflect.StructField
		var vals []interface{}
		ok := true
		for i := 0; i < n; i++ {
			e, eok := genJSONValue(r, depth-1)
			if e == nil {
				e = "nil-replaced"
			}
			ok = ok && eok
			tag := ""
			switch r.Intn(4) {
			case 0:
				tag = fmt.Sprintf(`json:"renamed_%d"`, i)
			case 1:
				tag = fmt.Sprintf(`json:"f%d,omitempty"`, i)
			case 2:
				tag = `json:"-"`
				eok = true
			}
			if tag == `json:"-"` {
				// excluded fields never matter
			}
			fs = append(fs, reflect.StructField{Name: fmt.Sprintf("F%d", i), Type: reflect.TypeOf(e), Tag: reflect.StructTag(tag)})
			vals = append(vals, e)
		}
		st := reflect.New(reflect.StructOf(fs)).Elem()
		for i, e := range vals {
			st.Field(i).Set(reflect.ValueOf(e))
		}
		// json:"-" fields with unencodable values are fine: recompute encodability with the real encoder
		_, err := json.Marshal(st.Interface())
		_ = ok
		if r.Bool() {
			p := reflect.New(st.Type())
			p.Elem().Set(st)
			return p.Interface(), err == nil
		}
		return st.Interface(), err == nil
	default:
		m := map[int]interface{}{}
		ok := true
		for i := 0; i < r.Intn(3); i++ {
			e, eok := genJSONValue(r, depth-1)
			m[r.Intn(100)-50] = e
			ok = ok && eok
		}
		return m, ok
	}
}

// jsonImage is decode(json.Marshal(v)) with UseNumber.
func jsonImage(v interface{}) (interface{}, error) {
	b, err := json.Marshal(v)
	if err != nil {
		return nil, err
	}
	return decodeNumber(b)
}

func decodeNumber(b []byte) (interface{}, error) {
	d := json.NewDecoder(bytes.NewReader(b))
	d.UseNumber()
	var out interface{}
	if err := d.Decode(&out); err != nil {
		return nil, err
	}
	if d.More() {
		return nil, fmt.Errorf("trailing data")
	}
	return out, nil
}

var nastyTypes = []string{"plain", "with \"quote\"", "back\\slash", "new\nline", "tab\t", "ünï 日本", "<tag>&", "", "a/b:c", " ",
	"bel\x07", "vt\x0b", "ff\x0c", "nul\x00mid", "us\x1f", "del\x7f", "nel\u0085", "tag\U000e0001", "zwj\u200d", "bom\ufeff", "sep\u2028\u2029", "esc\x1b[0m"}

// genType draws an event type: a nasty literal or random runes incl. control characters (valid UTF-8).
func genType(r *rt.Rand) string {
	if r.Intn(3) > 0 {
		return rt.Pick(r, nastyTypes)
	}
	n := r.Range(1, 8)
	rs := make([]rune, n)
	for i := range rs {
		switch r.Intn(4) {
		case 0:
			rs[i] = rune(r.Intn(0x20)) // C0 control
		case 1:
			rs[i] = rune(0x7f + r.Intn(0x22)) // DEL and C1 controls
		case 2:
			rs[i] = rune('a' + r.Intn(26))
		default:
			rs[i] = rune(0x2000 + r.Intn(0x70)) // general punctuation, separators, format characters
		}
	}
	return string(rs)
}

// snapshotValue renders a payload for before/after comparison (channels and funcs by pointer).
func snapshotValue(v interface{}) string { return fmt.Sprintf("%#v", v) }
