package fmtp

import (
	"bytes"
	"context"
	"crypto/sha256"
	"encoding/base64"
	"encoding/json"
	"errors"
	"fmt"
	"net/url"
	"reflect"
	"sort"
	"strings"
	"sync"
	"testing"
	"time"

	"github.com/hashicorp/eventlogger"
	"github.com/hashicorp/eventlogger/formatter_filters/cloudevents"

	"verifharness/internal/rt"
)

// payload kinds
type cePlain struct {
	A string
	N int
}
type ceID struct {
	cePlain
	id string
}

func (p *ceID) ID() string { return p.id }

type ceData struct {
	cePlain
	data interface{}
}

func (p *ceData) Data() interface{} { return p.data }

type ceBoth struct {
	cePlain
	id   string
	data interface{}
}

func (p *ceBoth) ID() string        { return p.id }
func (p *ceBoth) Data() interface{} { return p.data }

var errSigner = errors.New("injected signer failure")

type recSigner struct {
	mu    sync.Mutex
	calls map[string]string // input bytes -> returned signature
	fail  bool
	n     int
}

func (s *recSigner) sign(ctx context.Context, b []byte) (string, error) {
	s.mu.Lock()
	defer s.mu.Unlock()
	s.n++
	if s.fail {
		return "", errSigner
	}
	h := sha256.Sum256(b)
	sig := fmt.Sprintf("sig-%x-%d", h[:8], s.n)
	if s.n%4 == 0 {
		// a signature is a string, not necessarily a printable one (control characters, DEL, quotes, a backslash)
		sig = fmt.Sprintf("sig\x01\t\x7f\"\\-%x-%d", h[:8], s.n)
	}
	if s.calls == nil {
		s.calls = map[string]string{}
	}
	s.calls[string(b)] = sig
	return sig, nil
}

type ceCase struct {
	Kind, Format, Schema, Source, Signer, Listed, Predicate string
}

func (c ceCase) String() string {
	return fmt.Sprintf("payload=%s format=%s schema=%s source=%s signer=%s type=%s predicate=%s", c.Kind, c.Format, c.Schema, c.Source, c.Signer, c.Listed, c.Predicate)
}

func allCECases() []ceCase {
	var out []ceCase
	for _, k := range []string{"plain", "id", "data", "both", "emptyid"} {
		for _, f := range []string{"unset", "json", "text", "invalid"} {
			for _, sc := range []string{"nil", "set", "empty"} {
				for _, so := range []string{"set", "nil", "empty"} {
					for _, sg := range []string{"absent", "ok", "failing"} {
						for _, l := range []string{"listed", "unlisted"} {
							for _, p := range []string{"nil", "true", "false", "error", "true-error"} {
								out = append(out, ceCase{k, f, sc, so, sg, l, p})
							}
						}
					}
				}
			}
		}
	}
	return out
}

var ceSeenIDs sync.Map

type ceKept struct {
	ev     *eventlogger.Event
	format string
	stored []byte
	desc   string
}

func TestC18(t *testing.T) {
	run := rt.Start(t, "C18")
	defer run.Finish()
	r := run.Rand()
	ctx := context.Background()
	cases := allCECases()
	reps := run.Pick(2, 200)
	var group []*ceKept
	flush := func() {
		for _, k := range group {
			cur, ok := k.ev.Format(k.format)
			if !ok || !bytes.Equal(cur, k.stored) {
				run.Violation("history-pattern:stored-value-changed", "the document stored for an event changed after later events were formatted", map[string]any{"case": k.desc, "stored_then": string(k.stored), "stored_now": string(cur)})
			}
		}
		group = group[:0]
	}
	idx := 0
	for rep := 0; rep < reps; rep++ {
		for _, c := range cases {
			mine := idx%run.NBatch == run.Batch
			idx++
			if !mine || run.Stop() {
				continue
			}
			cr := r.Fork()
			// ---- build the node ----
			f := &cloudevents.FormatterFilter{}
			src, _ := url.Parse("https://example.com/source/" + fmt.Sprint(cr.Intn(100)))
			switch c.Source {
			case "set":
				f.Source = src
			case "empty":
				f.Source = &url.URL{}
			}
			// absolute, relative, fragment-only and non-normalised schema references: dataschema is the configured one
			sch, _ := url.Parse(rt.Pick(cr, []string{"https://example.com/schema.json", "https://example.com/schema.json", "/schemas/v1.json", "schemas/v1.json", "#frag", "https://h.example/event/../event/v1.json", "urn:example:schema:1"}))
			switch c.Schema {
			case "set":
				f.Schema = sch
			case "empty":
				f.Schema = &url.URL{}
			}
			storeKey := string(cloudevents.FormatJSON)
			switch c.Format {
			case "json":
				f.Format = cloudevents.FormatJSON
			case "text":
				f.Format = cloudevents.FormatText
				storeKey = string(cloudevents.FormatText)
			case "invalid":
				f.Format = "cloudevents-yaml"
			}
			signer := &recSigner{fail: c.Signer == "failing"}
			if c.Signer != "absent" {
				f.Signer = signer.sign
			}
			evType := "listed-type"
			f.SignEventTypes = []string{"listed-type", "another"}
			if c.Listed == "unlisted" {
				// unlisted types on every side of the listed ones in sort order, prefixes and case variants of them
				evType = rt.Pick(cr, []string{"unlisted-type", "aaa-unlisted", "listed", "listed-typ", "listed-type2", "Listed-type", "anothe", "b-between", "zzz"})
			}
			var sawCE interface{}
			switch c.Predicate {
			case "true", "false", "error", "true-error":
				p := c.Predicate
				f.Predicate = func(ctx context.Context, ce interface{}) (bool, error) {
					sawCE = ce
					switch p {
					case "true":
						return true, nil
					case "false":
						return false, nil
					case "true-error":
						return true, errPredicate
					}
					return false, errPredicate
				}
			}
			// ---- payload ----
			base := cePlain{A: rt.Pick(cr, nastyStrings), N: cr.Intn(1000)}
			if cr.Intn(8) == 0 {
				// documents of several kilobytes: what is signed is the document, whatever its size
				base.A = rt.Pick(cr, nastyStrings) + strings.Repeat("0123456789abcdef", cr.Range(40, 1200))
			}
			data, _ := genJSONValue(cr, 1)
			if _, err := json.Marshal(data); err != nil {
				data = "replaced"
			}
			wantID := ""
			var payload interface{}
			var dataSrc interface{}
			switch c.Kind {
			case "plain":
				p := base
				payload, dataSrc = &p, &p
			case "id":
				wantID = fmt.Sprintf("id-%d-%d", idx, cr.Intn(1000))
				if cr.Intn(6) == 0 {
					// the id is the payload's ID(), as it is: leading or trailing white space, or white space only
					wantID = rt.Pick(cr, []string{" " + wantID, wantID + "\n", "\t" + wantID + "  ", " ", "\n"})
				}
				p := &ceID{cePlain: base, id: wantID}
				payload, dataSrc = p, p
			case "data":
				payload, dataSrc = &ceData{cePlain: base, data: data}, data
			case "both":
				wantID = fmt.Sprintf("id-%d-%d", idx, cr.Intn(1000))
				if cr.Intn(6) == 0 {
					wantID = rt.Pick(cr, []string{" " + wantID, wantID + "\n", "\t" + wantID + "  ", " "})
				}
				payload, dataSrc = &ceBoth{cePlain: base, id: wantID, data: data}, data
			case "emptyid":
				p := &ceID{cePlain: base, id: ""}
				payload, dataSrc = p, p
			}
			created := time.Unix(int64(cr.Intn(2_000_000_000)), int64(cr.Intn(1_000_000_000))).UTC()
			if cr.Intn(10) == 0 {
				created = time.Time{} // an event that was not stamped (built by a node, or by a caller of Process)
			}
			// the format table the event arrives with: usually another format's value; sometimes none at all
			// (nil table), sometimes an earlier value under the very key this formatter stores to
			pre := map[string][]byte{"other": []byte("untouched")}
			var stale []byte
			switch cr.Intn(8) {
			case 0:
				pre = nil
			case 1:
				stale = []byte("{\"id\":\"earlier\",\"stale\":true}\n")
				pre[storeKey] = stale
			}
			npre := len(pre)
			ev := &eventlogger.Event{Type: eventlogger.EventType(evType), CreatedAt: created, Formatted: pre, Payload: payload}
			run.Progress("C18 %s", c)
			// the context of a Send that was cancelled while the pipeline is running reaches the formatter done;
			// what the formatter owes the event does not depend on it (the recording signer ignores it)
			pctx := ctx
			if cr.Intn(4) == 0 {
				cctx, cancel := context.WithCancel(ctx)
				cancel()
				pctx = cctx
			}
			out, err := f.Process(pctx, ev)
			stored, has := ev.Format(storeKey)
			wit := func(extra string) any {
				return map[string]any{"case": c.String(), "stored": string(stored), "err": fmt.Sprint(err), "forwarded": out != nil, "signer_calls": signer.n, "detail": extra}
			}
			bad := func(key, what string) { run.Violation("history-pattern:"+key, what, wit(what)) }
			invalid := c.Source != "set" || c.Format == "invalid" || c.Schema == "empty" || c.Kind == "emptyid"
			mustSign := c.Signer != "absent" && c.Listed == "listed"
			run.Eval(c.String())
			if invalid {
				if err == nil || out != nil {
					bad("invalid-accepted", "an invalid configuration / empty ID() must be rejected with an error and nothing forwarded")
				}
				if cur, _ := ev.Format(storeKey); len(ev.Formatted) != npre || !bytes.Equal(cur, stale) {
					bad("invalid-stored", "a document was stored although the configuration is invalid")
				}
				continue
			}
			if mustSign && c.Signer == "failing" {
				if err == nil || out != nil {
					bad("unsigned-forwarded", "the signer failed but the event was forwarded (unsigned)")
				}
				if has && (stale == nil || !bytes.Equal(stored, stale)) {
					bad("unsigned-stored", "the signer failed but a document was stored")
				}
				continue
			}
			if !mustSign && signer.n != 0 {
				bad("signed-unlisted", "the signer was called for an event type that is not listed for signing")
			}
			if !has {
				bad("not-stored", "no document was stored under the configured format: "+fmt.Sprint(err))
				continue
			}
			other := string(cloudevents.FormatText)
			if storeKey == other {
				other = string(cloudevents.FormatJSON)
			}
			if _, wrong := ev.Format(other); wrong {
				run.Add("also_stored_under_another_format", 1) // not excluded by the statement; the configured key is judged below
			}
			// predicate semantics
			switch c.Predicate {
			case "nil", "true":
				if err != nil || out != ev {
					bad("forwarding", fmt.Sprintf("predicate %s: the very event must be forwarded (err=%v)", c.Predicate, err))
				}
			case "false":
				if err != nil || out != nil {
					bad("forwarding", fmt.Sprintf("predicate false: the event must be dropped without error (err=%v)", err))
				}
			case "error", "true-error":
				if err == nil || out != nil {
					bad("forwarding", "predicate "+c.Predicate+": an error from the predicate is an error and nothing is forwarded")
				}
			}
			if c.Predicate != "nil" && sawCE == nil {
				run.Add("predicate_called_without_argument", 1) // what the predicate is handed is not part of the statement
			}
			// ---- the document ----
			doc, derr := decodeNumber(stored)
			obj, _ := doc.(map[string]interface{})
			if derr != nil || obj == nil {
				bad("document", "the stored value is not a JSON object: "+fmt.Sprint(derr))
				continue
			}
			var compact bytes.Buffer
			json.Compact(&compact, stored)
			if storeKey == string(cloudevents.FormatText) {
				var ind bytes.Buffer
				json.Indent(&ind, compact.Bytes(), "", "  ")
				if !bytes.Equal(append(ind.Bytes(), '\n'), stored) {
					bad("text-indentation", "the text format must be the document indented with two spaces")
				}
			} else if !bytes.Equal(append(compact.Bytes(), '\n'), stored) {
				bad("json-one-line", "the json format must be one compact newline-terminated line")
			}
			str := func(k string) string { s, _ := obj[k].(string); return s }
			if str("id") == "" || (wantID != "" && str("id") != wantID) {
				bad("id", fmt.Sprintf("id %q (payload ID() %q)", str("id"), wantID))
			}
			if wantID == "" {
				if _, dup := ceSeenIDs.LoadOrStore(str("id"), true); dup {
					bad("id-not-unique", "a generated id repeats: "+str("id"))
				}
			}
			if str("source") != src.String() || str("specversion") != "1.0" || str("type") != evType {
				bad("attributes", fmt.Sprintf("source=%q specversion=%q type=%q", str("source"), str("specversion"), str("type")))
			}
			if ts, perr := time.Parse(time.RFC3339Nano, str("time")); perr != nil || !ts.Equal(created) {
				bad("time", fmt.Sprintf("time %q is not the event's creation time %v", str("time"), created))
			}
			img, _ := jsonImage(dataSrc)
			if !reflect.DeepEqual(obj["data"], img) && !(img == nil && obj["data"] == nil) {
				bad("data", fmt.Sprintf("data %v differs from the JSON image of the payload / Data() %v", obj["data"], img))
			}
			wantCT := "application/cloudevents"
			if storeKey == string(cloudevents.FormatText) {
				wantCT = "text/plain"
			}
			ctSpec, hasSpec := obj["datacontenttype"].(string)
			ctTypo, hasTypo := obj["datacontentype"].(string)
			switch {
			case hasSpec && ctSpec == wantCT:
			case hasTypo && ctTypo == wantCT:
				run.Add("documents_with_misspelt_content_type_member", 1)
				run.ViolationOnce("history-pattern:datacontenttype-member-name", "the content type is emitted under the member name \"datacontentype\"; the CloudEvents attribute is \"datacontenttype\"", map[string]any{"case": c.String(), "stored": string(stored)})
			default:
				bad("content-type", fmt.Sprintf("content type %q/%q, expected %q", ctSpec, ctTypo, wantCT))
			}
			if ds, ok := obj["dataschema"]; (c.Schema == "set") != ok || (ok && ds != sch.String()) {
				bad("dataschema", fmt.Sprintf("dataschema=%v with schema %s", ds, c.Schema))
			}
			allowed := map[string]bool{"id": true, "source": true, "specversion": true, "type": true, "data": true, "datacontenttype": true, "datacontentype": true, "dataschema": true, "time": true, "serialized": true, "serialized_hmac": true}
			var extra []string
			for k := range obj {
				if !allowed[k] {
					extra = append(extra, k)
				}
			}
			sort.Strings(extra)
			if len(extra) > 0 {
				bad("unknown-members", fmt.Sprintf("unexpected members %v", extra))
			}
			// ---- signing ----
			ser, hasSer := obj["serialized"].(string)
			mac, hasMac := obj["serialized_hmac"].(string)
			if !mustSign {
				if hasSer || hasMac {
					bad("signed-unlisted", "serialized/serialized_hmac present although the event must not be signed")
				}
			} else {
				if !hasSer || !hasMac || ser == "" || mac == "" {
					bad("unsigned", "a forwarded event that must be signed carries no serialized / serialized_hmac")
				} else {
					B, berr := base64.RawURLEncoding.DecodeString(ser)
					if berr != nil {
						bad("serialized", "serialized is not base64url: "+berr.Error())
					} else {
						signer.mu.Lock()
						sig, called := signer.calls[string(B)]
						signer.mu.Unlock()
						if !called {
							bad("serialized", "serialized does not decode to bytes the signer was called with")
						} else if sig != mac {
							bad("serialized-hmac", "serialized_hmac is not what the signer returned for the serialized bytes")
						}
						// B is the exact unsigned document: the final document minus the two members, same format
						unsigned := map[string]interface{}{}
						for k, v := range obj {
							if k != "serialized" && k != "serialized_hmac" {
								unsigned[k] = v
							}
						}
						bdoc, _ := decodeNumber(B)
						if !reflect.DeepEqual(bdoc, interface{}(unsigned)) {
							bad("serialized", "serialized does not decode to the unsigned document")
						}
						var bc, bi bytes.Buffer
						json.Compact(&bc, B)
						if storeKey == string(cloudevents.FormatText) {
							json.Indent(&bi, bc.Bytes(), "", "  ")
							if !bytes.Equal(append(bi.Bytes(), '\n'), B) {
								bad("serialized", "the signed bytes are not the (indented) text encoding of the unsigned document")
							}
						} else if !bytes.Equal(append(bc.Bytes(), '\n'), B) {
							bad("serialized", "the signed bytes are not the json encoding of the unsigned document")
						}
					}
				}
			}
			if o, ok := ev.Format("other"); pre != nil && (!ok || string(o) != "untouched") {
				bad("format-table-altered", "another format's value was disturbed")
			}
			group = append(group, &ceKept{ev: ev, format: storeKey, stored: append([]byte(nil), stored...), desc: c.String()})
			if len(group) >= 24 {
				flush()
			}
			if run.NeedSample() && mustSign {
				run.Sample(map[string]any{"case": c.String(), "stored": string(stored)})
			}
		}
	}
	flush()
	// Rotate(nil) is rejected, Rotate(s) takes effect
	f := &cloudevents.FormatterFilter{Source: &url.URL{Scheme: "https", Host: "h"}, SignEventTypes: []string{"t"}}
	if err := f.Rotate(nil); err == nil {
		run.Violation("history-pattern:rotate-nil", "Rotate(nil) must be rejected", nil)
	}
	s2 := &recSigner{}
	if err := f.Rotate(s2.sign); err != nil {
		run.Violation("history-pattern:rotate", "Rotate(signer) failed: "+err.Error(), nil)
	}
	ev := &eventlogger.Event{Type: "t", CreatedAt: time.Now(), Payload: "x"}
	if _, err := f.Process(ctx, ev); err != nil || s2.n != 1 {
		run.Violation("history-pattern:rotate", fmt.Sprintf("after Rotate the new signer must be used (calls=%d err=%v)", s2.n, err), nil)
	}
	c18Histories(run, r)
	c18Entropy(run, r)
}
