// Command fswriter is the child process of the C08/C13 crash and fault runs: it drives a real
// FileSink with a deterministic workload while the parent kills it (strace fault injection or
// SIGKILL) and inspects the directory afterwards. The ack log is written with pwrite64 on a
// pre-opened descriptor so that it does not consume the "write" syscall counts of the injector.
package main

import (
	"context"
	"flag"
	"fmt"
	"os"
	"os/signal"
	"strconv"
	"sync"
	"syscall"
	"time"

	"github.com/hashicorp/eventlogger"
)

// Body is a pure function of the record id, so the parent can regenerate every record.
func Body(id string, n int) []byte {
	b := make([]byte, n)
	h := uint64(1469598103934665603)
	for i := 0; i < len(id); i++ {
		h = (h ^ uint64(id[i])) * 1099511628211
	}
	for i := range b {
		h = h*6364136223846793005 + 1442695040888963407
		switch (h >> 33) % 9 {
		case 0:
			b[i] = '\n'
		case 1:
			b[i] = '#'
		default:
			b[i] = byte('a' + (h>>40)%26)
		}
	}
	return b
}

func Frame(id string, body []byte) []byte {
	return append(append([]byte(fmt.Sprintf("#%s:%d:", id, len(body))), body...), '\n')
}

type ackLog struct {
	fd   int
	pipe bool
	mu   sync.Mutex
	off  int64
}

func (a *ackLog) line(s string) {
	a.mu.Lock()
	defer a.mu.Unlock()
	b := []byte(s + "\n")
	if a.pipe {
		syscall.Write(a.fd, b)
		return
	}
	n, _ := syscall.Pwrite(a.fd, b, a.off)
	a.off += int64(n)
}

func main() {
	dir := flag.String("dir", "", "sink directory")
	ack := flag.String("ack", "", "ack log path")
	writers := flag.Int("writers", 1, "concurrent writers")
	records := flag.Int("records", 20, "records per writer")
	maxBytes := flag.Int("maxbytes", 0, "")
	maxFiles := flag.Int("maxfiles", 0, "")
	maxDurMS := flag.Int("maxdurms", 0, "")
	tsOnly := flag.Bool("tsonly", false, "")
	reopenEvery := flag.Int("reopen-every", 0, "call Reopen after every n-th record of writer 0")
	recLen := flag.Int("reclen", 40, "body length")
	pathOverride := flag.String("path", "", "FileSink.Path override (e.g. /dev/stdout)")
	fileName := flag.String("file", "audit.log", "")
	fsize := flag.Int("fsize", 0, "RLIMIT_FSIZE for this process (a write that crosses it is short, the next one fails with EFBIG); needs -ack -")
	flag.Parse()

	var al *ackLog
	if *ack == "-" {
		// stdout must be a pipe here: pipes are not subject to RLIMIT_FSIZE
		al = &ackLog{fd: 1, pipe: true}
	} else {
		fd, err := syscall.Open(*ack, syscall.O_CREAT|syscall.O_WRONLY|syscall.O_TRUNC, 0o644)
		if err != nil {
			fmt.Fprintln(os.Stderr, "ack log:", err)
			os.Exit(3)
		}
		al = &ackLog{fd: fd}
	}
	if *fsize > 0 {
		signal.Ignore(syscall.SIGXFSZ)
		lim := syscall.Rlimit{Cur: uint64(*fsize), Max: uint64(*fsize)}
		if err := syscall.Setrlimit(syscall.RLIMIT_FSIZE, &lim); err != nil {
			fmt.Fprintln(os.Stderr, "setrlimit:", err)
			os.Exit(3)
		}
	}
	path := *dir
	if *pathOverride != "" {
		path = *pathOverride
	}
	sink := &eventlogger.FileSink{Path: path, FileName: *fileName, MaxBytes: *maxBytes, MaxFiles: *maxFiles,
		MaxDuration: time.Duration(*maxDurMS) * time.Millisecond, TimestampOnlyOnRotate: *tsOnly}
	ctx := context.Background()
	var wg sync.WaitGroup
	for w := 0; w < *writers; w++ {
		wg.Add(1)
		go func(w int) {
			defer wg.Done()
			for n := 0; n < *records; n++ {
				id := "w" + strconv.Itoa(w) + "n" + strconv.Itoa(n)
				l := *recLen + (n*7+w*3)%23
				rec := Frame(id, Body(id, l))
				ev := &eventlogger.Event{Type: "t", CreatedAt: time.Now(), Formatted: map[string][]byte{"json": rec}}
				al.line("C " + id + " " + strconv.Itoa(l))
				_, err := sink.Process(ctx, ev)
				if err == nil {
					al.line("A " + id)
				} else {
					al.line("E " + id + " " + err.Error())
				}
				if w == 0 && *reopenEvery > 0 && n%*reopenEvery == *reopenEvery-1 {
					if err := sink.Reopen(); err != nil {
						al.line("R err " + err.Error())
					} else {
						al.line("R ok")
					}
				}
			}
		}(w)
	}
	wg.Wait()
	al.line("DONE")
}
