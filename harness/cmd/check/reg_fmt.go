package main

func init() {
	reg("C14", &prop{
		Pkg: "fmtp", Test: "TestC14", Race: true, QuickBatches: 6, ThoroughBatches: 48,
		QuickTimeoutS: 500, ThoroughTimeoutS: 3000, GoMaxProcs: []int{4, 16, 2}, Parallel: 8,
		Level: "exploration", DesignRef: "DESIGN.md section 4, C14",
		Technique: "runtime monitoring with a JSON-value generator and a decode-and-compare oracle (JSON image of the payload), re-verification of earlier events after later ones were formatted, predicate outcome enumeration, and porcupine linearizability checking of concurrent FormattedAs/Format histories under the race detector",
		LevelText: "Exploration by execution: payloads from a JSON-value generator (nested maps incl. map[int], slices, run-time built structs with json tags, strings with control characters, quotes, U+2028, invalid UTF-8, extreme integers, floats incl. -0 and subnormals, NaN/Inf, chan/func/complex, []byte, time.Time, json.Number) x event types with special characters x creation times incl. out-of-range years x {JSONFormatter, JSONFormatterFilter without predicate, with predicate true/false/error}. The stored json value must be one newline-terminated valid JSON line with exactly created_at, event_type, payload that decode (UseNumber) to the creation time, the type and decode(json.Marshal(payload)); payload, type, time and other formats untouched; unencodable => error, nothing forwarded, nothing stored; forwarding rule per predicate outcome; every 24 events the values stored for EARLIER events are verified again (nothing may alias a reused buffer). Filter forwards iff its predicate is true. Format table: 2..8 goroutines x 5..40 FormattedAs/Format calls with unique values on one event (also one whose table starts nil) must be linearizable as a last-writer-wins register per format, with zero race reports.",
		LevelNote: "Trusted: encoding/json as the definition of the JSON image, porcupine, the race detector. Invalid UTF-8 in event TYPES is not asserted (JSON cannot carry it faithfully).",
		Rule:      "PRNG-determined cases; distinct = distinct (node kind, predicate, payload dynamic type, size class) resp. table configuration; all cases are non-trivial.",
	})
}

func init() {
	reg("C18", &prop{
		Pkg: "fmtp", Test: "TestC18", QuickBatches: 4, ThoroughBatches: 32,
		QuickTimeoutS: 400, ThoroughTimeoutS: 2400, GoMaxProcs: []int{2}, Parallel: 8,
		Level: "fault_enumeration", DesignRef: "DESIGN.md section 4, C18",
		Technique: "runtime monitoring over the exhaustively enumerated configuration space of the cloudevents formatter (incl. failing signer and failing predicate) with a recording signer, decode-and-compare of every stored document, canonical re-indentation check, and re-verification of earlier events' documents after later ones were formatted",
		LevelText: "Fault enumeration by execution: all 5400 combinations of payload kind {plain, ID, Data, ID+Data, empty ID()} x Format {unset, json, text, invalid} x Schema {nil, set, empty} x Source {set, nil, empty} x Signer {absent, recording, failing} x event type {listed, unlisted} x Predicate {nil, true, false, error, true-with-error} are executed (2x quick / 200x thorough with seeded payload contents). For valid configurations the bytes stored under the configured format must decode to an object with non-empty id (== ID() when implemented, otherwise never repeating over the run), source, specversion 1.0, type, time == CreatedAt, data == JSON image of the payload or of Data(), the content type matching the format and dataschema iff a schema is set, no unknown members; the text format must equal the 2-space re-indentation of itself, the json format one compact line. Signing: if a signer is set and the type is listed, serialized must base64url-decode to bytes B that the recording signer was really called with, serialized_hmac must be what it returned for B, and B must be the exact (indented, for text) encoding of the document without the two members; a failing signer means no forward and nothing stored; unlisted types never reach the signer. Invalid configurations and empty IDs are rejected without storing anything. Predicate semantics as for C14. Earlier events' documents are compared again after 24 later events.",
		LevelNote: "Trusted: encoding/json for the JSON image and canonical indentation, the recording signer. The finite configuration space is enumerated completely by every run (across its batches); payload contents are sampled. One listed known finding: the content type member is spelt \"datacontentype\" (see known_findings.json).",
		Rule:      "exhaustive enumeration of the 5400 configurations, each batch taking every NBatch-th; distinct = distinct configuration.",
	})
}

func init() {
	reg("C19", &prop{
		Pkg: "stock", Test: "TestC19", Race: true, QuickBatches: 6, ThoroughBatches: 48,
		QuickTimeoutS: 600, ThoroughTimeoutS: 3000, GoMaxProcs: []int{2, 4, 16}, Parallel: 6,
		Level: "exploration", DesignRef: "DESIGN.md section 4, C19",
		Technique: "Go race detector over phase-aligned concurrent workloads on compositions of the library's stock nodes (shared across pipelines, formatters in non-root positions), with concurrent control calls; offline output-integrity checker per sink (whole documents of the sink's own format, per-sink line counts equal to what Send reported complete, no classified plaintext behind the encrypt filter, encrypted values open under a wrapper that was in force)",
		LevelText: "Exploration by execution under the race detector: seeded compositions of 1..4 pipelines for one event type drawn from {Filter, encrypt.Filter, JSONFormatter, JSONFormatterFilter, cloudevents.FormatterFilter (signing), FileSink (size rotation, both naming modes), writer.Sink (split writes), ChannelSink (drained)} with nodes and sinks shared between pipelines, formatter-ish nodes also in non-root positions and filters after formatters, plus a gated.Filter pipeline whose composites return through the same Broker; 2..8 senders x 40..120 events with unique ids and secret/sensitive/public fields, interleaved with Broker.Reopen, FileSink.Reopen, encrypt.Filter.Rotate, in-band rotation payloads, cloudevents Rotate and threshold setters (barrier start, GOMAXPROCS 2/4/16). Oracles: zero library-attributed race reports, no fatal error or panic; every output line of every sink is a whole JSON document of that sink's format for exactly one event id; per sink the number of lines per event equals the number of times Status.CompleteSinks named the sink for that Send; sinks behind the encrypt filter hold no classified plaintext and their encrypted values open under one of the wrappers ever in force. The coverage lists the ordered pairs of node kinds that ran as neighbours.",
		LevelNote: "Trusted: race detector (reports are attributed to the library iff an access stack has a frame under /repo), the independent crypto verifier. A clean run says nothing about node combinations that were not drawn; the pairs seen are listed in the evidence.",
		Rule:      "seeded compositions and workloads; every composition is non-trivial (>=2 senders, >=1 shared node kind); distinct = distinct composition description.",
	})
}
