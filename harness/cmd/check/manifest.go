package main

import (
	"bufio"
	"encoding/json"
	"fmt"
	"os"
	"os/exec"
	"sort"
	"strings"
)

func writeManifest() {
	var all []string
	f, err := os.Open(verifRoot + "/properties.jsonl")
	if err != nil {
		fatal2("%v", err)
	}
	sc := bufio.NewScanner(f)
	sc.Buffer(make([]byte, 1<<20), 1<<20)
	for sc.Scan() {
		var p struct {
			ID string `json:"id"`
		}
		if json.Unmarshal(sc.Bytes(), &p) == nil && p.ID != "" {
			all = append(all, p.ID)
		}
	}
	sort.Strings(all)
	var checks []map[string]any
	na := []map[string]string{}
	for _, id := range all {
		p, ok := props[id]
		if !ok {
			reason := notApplicable[id]
			if reason == "" {
				reason = "monitor not built yet"
			}
			na = append(na, map[string]string{"property_id": id, "reason": reason})
			continue
		}
		note := p.LevelNote
		if p.ThoroughScale > 1 {
			note += fmt.Sprintf(" The thorough tier multiplies every PRNG-determined case count named for it above by %d (exhaustive depths are unchanged).", p.ThoroughScale)
		}
		cmd := "cd /verif/harness && GOFLAGS=-mod=mod GOPROXY=off GOSUMDB=off GOTOOLCHAIN=local go run ./cmd/check -id " + id
		checks = append(checks, map[string]any{
			"property_id":         id,
			"quick_cmd":           cmd + " -tier quick",
			"thorough_cmd":        cmd + " -tier thorough",
			"evidence_file":       "/verif/evidence/" + id + ".json",
			"replay_cmd_template": "cd /verif/harness && GOFLAGS=-mod=mod GOPROXY=off GOSUMDB=off GOTOOLCHAIN=local go run ./cmd/check -replay {path}",
			"engine":              "verifharness",
			"level_claimed":       map[string]string{"category": p.Level, "text": p.LevelText, "design_ref": p.DesignRef},
			"level_note":          note,
			"technique":           p.Technique,
		})
	}
	var commits []string
	out, _ := exec.Command("git", "-C", "/repo", "log", "--format=%H %s").Output()
	for _, l := range strings.Split(string(out), "\n") {
		if strings.Contains(l, " verif: ") {
			commits = append(commits, strings.Fields(l)[0])
		}
	}
	m := map[string]any{
		"version":   1,
		"setup_cmd": "cd /verif/harness && GOFLAGS=-mod=mod GOPROXY=off GOSUMDB=off GOTOOLCHAIN=local sh ../scripts/setup.sh",
		"hooks": map[string]any{
			"guard":            "verif (Go build tag)",
			"enable":           "go test -c -tags verif (the driver harness/cmd/check builds every monitor with the tag; without it verifPoint is an empty inlinable stub)",
			"baseline_off_cmd": "/verif/scripts/baseline_off.sh",
			"source_commits":   commits,
			"add_only":         true,
		},
		"engines": []map[string]any{{
			"name": "verifharness", "path": "/verif/harness",
			"serves_properties": func() []string {
				var l []string
				for _, c := range checks {
					l = append(l, c["property_id"].(string))
				}
				return l
			}(),
			"kind_free_text": "Go runtime-monitoring harness: per-property monitors (recording nodes, reference models, porcupine linearizability checks, race detector log parser, goroutine inspector, strace crash/fault injector) run as child processes by the driver cmd/check",
		}},
		"checks":         checks,
		"not_applicable": na,
		"notes":          "All checks decide by observing executions of the real code in /repo (rebuilt from the working tree with -tags verif on every run). Known findings: /verif/known_findings.json. See DESIGN.md.",
	}
	b, _ := json.MarshalIndent(m, "", " ")
	if err := os.WriteFile(verifRoot+"/MANIFEST.json", append(b, '\n'), 0o644); err != nil {
		fatal2("%v", err)
	}
	fmt.Printf("MANIFEST.json: %d checks, %d not_applicable\n", len(checks), len(na))
}
