package main

func init() {
	reg("C01", &prop{
		Pkg: "broker", Test: "TestC01", QuickBatches: 4, ThoroughBatches: 32,
		QuickTimeoutS: 300, ThoroughTimeoutS: 1500, ThoroughScale: 5, GoMaxProcs: []int{1, 4, 16, 2}, Parallel: 8,
		Level: "exploration", DesignRef: "DESIGN.md section 4, C01",
		Technique: "runtime monitoring: recording nodes at the API boundary + hook-traced Sends, offline decomposition checker against a reference model",
		LevelText: "Exploration by runtime monitoring: thousands of generated configurations/histories x Sends (cancelled at enumerated protocol hooks, seeded yields, GOMAXPROCS 1/2/4/16) are executed on the real Broker; an oracle decides for every Send whether the observed node invocations decompose into exactly the traversals the reference model demands (identity of forwarded events, logical-clock order, at-most-once). Right level because the property quantifies over configurations, histories and schedules that can only be sampled by execution.",
		LevelNote: "Trusted: harness recording nodes, reference model written from the property text, Go runtime. Schedules are sampled, not enumerated; held = no refuting execution among those observed.",
		Rule:      "seeded random configurations: 1..3 event types, pipelines built by a random registration history (register/overwrite/remove/remove+nodes/re-register node) replayed on a reference model, 2..5 recording nodes per pipeline drawn from 7 shared ids, behaviours pass/replace/drop/error chosen per (node object, provenance); 1..3 Sends per type incl. an unregistered type, context never cancelled / cancelled before the call / cancelled inside the k-th protocol hook, seeded yields at hooks; oracle = existence of a decomposition of the observed node invocations into the model's expected traversals (pointer identity + logical-clock order). A case counts as non-trivial when the sent type has >=2 registered pipelines and some node id is shared; distinct = distinct (pipeline shapes with behaviours, cancelled?, #invocations).",
	})
}

func init() {
	reg("C02", &prop{
		Pkg: "broker", Test: "TestC02", QuickBatches: 8, ThoroughBatches: 48,
		QuickTimeoutS: 300, ThoroughTimeoutS: 2400, ThoroughScale: 3, GoMaxProcs: []int{4, 1, 16, 2}, Parallel: 8,
		Level: "fault_enumeration", DesignRef: "DESIGN.md section 4, C02",
		Technique: "runtime monitoring with cancel-point enumeration: every outcome vector (success/filtered/error per pipeline, n<=3) x thresholds, the context cancelled synchronously inside every protocol hook of the dispatch; Status/error compared with the node log and a threshold model",
		LevelText: "Fault enumeration by execution: for every outcome vector of up to 3 pipelines (exhaustive; n=4 sampled in the thorough tier), shared and separate sinks, and threshold pairs in 0..n+1, Send is executed once uncancelled to learn its hook trace and then once per protocol hook with the context cancelled inside that hook (plus before the call). An oracle compares Complete/CompleteSinks/Warnings/err with what the recording nodes really returned and with the thresholds in force. Random registry configurations and random setter/getter/Send sequences over three types cover sharing and the per-type threshold model.",
		LevelNote: "Trusted: harness recording nodes and the reference model; cancel points are those reachable through the verif hooks in graph.go (all suspension points of the protocol). Goroutine schedules between hooks are sampled (seeded yields, GOMAXPROCS 1/2/4/16).",
		Rule:      "part A: all outcome vectors over {success, filtered, error at filter, error at sink, error at formatter} for 0..3 pipelines (x shared sink) x threshold pairs, each also run with the context cancelled at every hook hit; part B: random configurations from C01's generator with random thresholds and random cancel points; part C: random threshold setter/getter/Send histories over 3 types. Non-trivial = a Send over >=1 pipelines with its (vector, thresholds, cancel point) or (history) signature; distinct signatures are counted.",
	})
	reg("C03", &prop{
		Pkg: "broker", Test: "TestC03", QuickBatches: 8, ThoroughBatches: 48,
		QuickTimeoutS: 400, ThoroughTimeoutS: 2400, ThoroughScale: 2, GoMaxProcs: []int{4, 2, 16, 1}, Parallel: 8,
		Level: "fault_enumeration", DesignRef: "DESIGN.md section 4, C03",
		Technique: "runtime monitoring: gated (blocking) recording nodes, cancellation injected at every protocol hook, goroutine-dump inspector for leaks and blocked-state witnesses, watchdog with three-valued verdict",
		LevelText: "Fault enumeration by execution: configurations of <=3 pipelines x <=3 inner nodes (+formatter, sink) with outcomes pass/replace/drop/error/block; for each, Send is run never-cancelled, cancelled before the call and cancelled inside each hook hit of the dispatch protocol (all hits in the thorough tier, a seeded sample of 10 in the quick tier), with blocking nodes held at harness gates. Decided at the boundary: Send must return while the gates are still closed once cancelled, must not return before all pipelines finished when never cancelled, and after the gates open no goroutine with graph.process/doProcess frames may remain (two goroutine dumps). Panics end the child process and are reported by the driver.",
		LevelNote: "Trusted: goroutine dump parsing, gates. 'Promptly' is decided by a gate (Send must return before the harness opens it), never by a tuned duration; watchdog 10 s => inconclusive unless the goroutine is provably parked in the library.",
		Rule:      "seeded configurations (1..3 pipelines, 0..2 filters each incl. a shared filter, formatter, sink; ~25% of nodes block at a gate) x cancel points {before call, never, k-th hook hit}; seeded yields at hooks; non-trivial = configuration with a blocking node or a cancel point; distinct = (configuration, hook at which the cancel landed).",
	})
}

func init() {
	reg("C06", &prop{
		Pkg: "broker", Test: "TestC06", QuickBatches: 8, ThoroughBatches: 64,
		QuickTimeoutS: 400, ThoroughTimeoutS: 3000, ThoroughScale: 2, GoMaxProcs: []int{2}, Parallel: 16,
		Level: "exploration", DesignRef: "DESIGN.md section 4, C06",
		Technique: "runtime monitoring against an executable reference model: every history is executed on the real Broker step by step next to a clean registry model; Close calls are observed per node object; in-use accounting is decided by destructive RemoveNode probes on a replayed copy after every step",
		LevelText: "Exploration by execution with a reference model: all call histories up to depth 3 (quick) / 4 (thorough) over a reduced alphabet (2 types, 2 pipeline ids, 3 node ids, a node list with a duplicate id) are enumerated exhaustively, one level deeper is sampled, and seeded random histories of up to 60 calls run over the quantifier's full alphabet. After EVERY step the return value, the set of node objects closed (exactly those no remaining pipeline lists, once each), delivery to the remaining pipelines and - on a fresh replay of the prefix - the result of RemoveNode for every id are compared with the model. The property's 'depth 7 exhaustively' is out of reach for execution (22^7 histories); evidence says exhaustive:false and reports the depth reached.",
		LevelNote: "Trusted: the reference model (written from the property statement), recording nodes. Close is attributed to the node object currently registered under an id. VerifSnapshot (private counters) is recorded in witnesses for diagnosis only, never used for the verdict.",
		Rule:      "exhaustive histories (prologue registering a,m,k + every sequence of up to depth D over 22 calls), PRNG-sampled histories of depth D+1, random histories of 4..60 calls (registry-biased generator: duplicates, overwrites, re-registration of listed node ids, removals of existing pipelines). Non-trivial: every history; distinct = distinct (call sequence, trajectory of model sizes).",
	})
}

func init() {
	reg("C05", &prop{
		Pkg: "broker", Test: "TestC05", QuickBatches: 8, ThoroughBatches: 32,
		QuickTimeoutS: 400, ThoroughTimeoutS: 2400, ThoroughScale: 20, GoMaxProcs: []int{2}, Parallel: 16,
		Level: "exploration", DesignRef: "DESIGN.md section 4, C05",
		Technique: "runtime monitoring against an executable specification predicate (exhaustive over node-type sequences) plus differential observation of replayed histories with and without the failing call",
		LevelText: "Exploration by execution: (1) the acceptance predicate of the property statement is evaluated next to the real RegisterPipeline for ALL node-type sequences of length 1..5 over {filter, formatter, sink, formatter-filter, unknown 0, unknown 9} (9330 sequences) x {all ids registered, one missing, one empty id, empty pipeline id, empty type, empty list} x {no previous pipeline, previous Allow, previous Deny}; (2) seeded random histories of <=6 calls (+prologue) ending in a failing RegisterPipeline/RegisterNode/RemoveNode or RemovePipelineAndNodes=false are replayed on two fresh brokers with and without the failing call and the externally observable state (what a Send of each type delivers to, IsAnyPipelineRegistered, result class of a destructive RemoveNode probe per node id, which objects get closed) must be identical; IsAnyPipelineRegistered is compared with the model after every step.",
		LevelNote: "Trusted: the predicate transcribed from the property statement, recording nodes. Part (1) is exhaustive for its finite space (every run enumerates it completely across its batches); part (2) is sampled. Node Close never fails in this check (C05 and C06 read differently on RemoveNode with a failing Close).",
		Rule:      "part 1: exhaustive enumeration (each batch takes every NBatch-th sequence; all batches together cover all 9330 x 6 x 3 cases); part 2: random histories from the registry-biased generator with 45% malformed definitions and invalid policies. Non-trivial: every acceptance case and every failing call checked; distinct = distinct (type sequence, variant, previous policy) resp. (failing op kind, observable state).",
	})
	reg("C07", &prop{
		Pkg: "broker", Test: "TestC07", Race: true, QuickBatches: 9, ThoroughBatches: 64,
		QuickTimeoutS: 400, ThoroughTimeoutS: 3000, GoMaxProcs: []int{2, 4, 16}, Parallel: 16,
		Level: "exploration", DesignRef: "DESIGN.md section 4, C07",
		Technique: "runtime monitoring against a reference model of registration policies (exhaustive short histories + sampled longer ones), plus concurrent overwrite-vs-Send histories with versioned marker nodes checked for exactly-one-version delivery and linearizability (porcupine)",
		LevelText: "Exploration by execution: every history of up to 4 (quick) / 5 (thorough) calls over {RegisterNode f x 4 policies (allow, deny, default, invalid), RegisterPipeline t0/p0 with two node lists x 4 policies, re-registration of m and k, a second type's pipeline, RemoveNode, RemovePipeline, RemovePipelineAndNodes}, with and without a prologue, is run next to a reference model; every return value must match and after every step a Send per type must be processed by exactly the node objects the surviving registrations captured (object identity). Concurrent part: one goroutine overwrites (t,p) v1..vn while senders run; per Send exactly one version's marker may fire and the register history must be linearizable. The extended alphabet adds RegisterNode calls that offer the very object already registered under the id (exhaustive to depth 3 for histories that use one, and in all sampled histories).",
		LevelNote: "Trusted: reference model, recording nodes, porcupine v1.3.0. Schedules of the concurrent part are sampled (phase-aligned start, GOMAXPROCS 2/4/16).",
		Rule:      "sequential: exhaustive enumeration of policy histories to depth D, PRNG-sampled histories of depth D+1..10; concurrent: seeded overwrite/sender programs. Non-trivial: every history; distinct = distinct (call sequence, trajectory of results).",
	})
	reg("C20", &prop{
		Pkg: "broker", Test: "TestC20", QuickBatches: 8, ThoroughBatches: 32,
		QuickTimeoutS: 300, ThoroughTimeoutS: 1800, ThoroughScale: 20, GoMaxProcs: []int{2}, Parallel: 16,
		Level: "fault_enumeration", DesignRef: "DESIGN.md section 4, C20",
		Technique: "runtime monitoring with single-fault enumeration: registry states produced by random histories next to a reference model; Reopen counted per node object; each captured node object is made to fail in turn; Reopen under done contexts",
		LevelText: "Fault enumeration by execution: registry states reached by seeded random histories of up to 8 calls (+prologue; 3 types, shared nodes, overwritten node ids whose old objects are still captured by older pipeline versions, removed pipelines) are tracked by a reference model that knows which node OBJECTS each registered pipeline captured. Without faults Broker.Reopen must return nil and every captured object's Reopen count must grow; then for EACH captured object in turn its Reopen returns a unique error and Broker.Reopen must return a non-nil error that carries it (errors.Is or its unique token); objects captured by no registered pipeline may fail without consequence. Additionally Broker.Reopen is called with an already cancelled context and with a context that the first node reached cancels: a nil result must still have reached every captured object (a non-nil result under a done context is counted and not judged).",
		LevelNote: "Trusted: reference model and recording nodes. The fault space (which single object fails) is enumerated completely for every generated state; the state space is sampled.",
		Rule:      "seeded random registry histories; per state: 1 fault-free Reopen + one Reopen per captured object failing + one with all unreferenced objects failing. Non-trivial = state with >=2 captured objects; distinct = distinct history.",
	})
}

func init() {
	reg("C04", &prop{
		Pkg: "broker", Test: "TestC04", Race: true, QuickBatches: 9, ThoroughBatches: 48,
		QuickTimeoutS: 400, ThoroughTimeoutS: 3000, ThoroughScale: 3, GoMaxProcs: []int{2, 4, 16}, Parallel: 6,
		Level: "exploration", DesignRef: "DESIGN.md section 4, C04",
		Technique: "Go race detector over phase-aligned concurrent workloads + offline linearizability checking (porcupine v1.3.0) of recorded call/return histories against per-key sequential models, with versioned marker nodes identifying which registration a Send observed",
		LevelText: "Exploration by execution under the race detector: many short concurrent histories (2..8 actor goroutines x 30..120 random Broker calls over 2 types / 3 pipeline ids / 4 shared node ids with allow/deny/default policies, plus 1..4 senders, barrier start, GOMAXPROCS 2/4/16) are recorded at the API boundary with a logical clock. Every registered pipeline version is rooted at its own marker node, so per Send the set of versions that saw it is known. Oracles: zero library-attributed race reports, no panic/fatal error; per (type,pipeline id) the sub-history {Register, Remove, RemoveAndNodes, Send-read} must be linearizable w.r.t. a register model with the deny policy (exactly-once after registration returned, never after removal returned, 0/1 while overlapping, never two versions); node-id registers (nondeterministic model for RemovePipelineAndNodes side effects) and threshold registers likewise; a sequential epilogue after quiescence is part of the same history; no node object is closed twice. One registration in six inside the concurrent histories is malformed (no formatter before the sink, or no sink) and must fail; like every failed call it takes no effect in the model, so a Send that is seen by its marker node, or that misses the version it tried to replace, makes the key's history non-linearizable. Marker nodes yield inside Type() 0..3 times (slow node code while a registration is being validated).",
		LevelNote: "Trusted: race detector, porcupine, marker nodes, logical clock (atomic counter; call stamped before, return after). Send is deliberately not modelled as one atomic multi-key read (the property promises per-pipeline atomicity). Interleavings are sampled, not enumerated.",
		Rule:      "seeded concurrent programs; each history is non-trivial (>=2 actors + >=1 sender); distinct = distinct (configuration, #recorded calls, #successful registrations). Coverage also lists the API entry points that ran concurrently and porcupine verdict counts.",
	})
}

func init() {
	reg("C12", &prop{
		Pkg: "broker", Test: "TestC12", QuickBatches: 8, ThoroughBatches: 32,
		QuickTimeoutS: 400, ThoroughTimeoutS: 2400, ThoroughScale: 20, GoMaxProcs: []int{4, 16, 2}, Parallel: 16,
		Level: "exploration", DesignRef: "DESIGN.md section 4, C12",
		Technique: "runtime monitoring with schedule forcing: re-entrant nodes and the library's gated filter wired to the same Broker, a writer forced to be parked on the Broker lock (seen in a goroutine dump) before the callback re-enters, watchdog with blocked-state witness from goroutine dumps, probe calls afterwards; writers of three kinds (RegisterNode, threshold setters, pipeline changes on the same event type) and injected failures of the re-entrant Send",
		LevelText: "Exploration by execution: every Broker operation that runs node code (Send->Process, Reopen->Reopen, RemoveNode/RemovePipelineAndNodes->Close) x a node that re-enters Send on the same Broker from that callback, x the library's gated.Filter with 0..3 pending groups flushing through the same Broker from Close (removed via RemovePipelineAndNodes and via RemovePipeline+RemoveNode) and from Process (expired groups), each with and without a concurrent writer (RegisterNode, or the threshold setters of the outer event type) that the harness first makes sure is parked on a lock; plus refused/failed calls of every kind. After each scenario a probe RegisterNode and a probe Send must return ('never permanently locked') and parked writers must get through. 'Bounded time' is restated as: returns before the watchdog unless the goroutine is provably parked forever (same parked state with library frames in two dumps) - only then a violation; otherwise inconclusive. Added after seeded-change rounds: the waiting writer is, besides RegisterNode and the threshold setters, a RegisterPipeline+RemovePipeline on the very event type whose Send/Reopen/removal is in flight; the gated filter's re-entrant Send is made to fail for the first 1..n groups (as a Broker whose threshold is unmet does) during expiry in Process and during Close from the removal calls; and after every gated scenario a further gateable event is sent through the filter and the pipeline removed, each under the watchdog, so a filter left holding its own lock is seen as a Broker call that never returns.",
		LevelNote: "Trusted: goroutine dump parsing, watchdog 8 s. The interleaving 'writer queued between outer and inner read lock' is forced, not hoped for; other schedules are sampled by repetition and GOMAXPROCS variation.",
		Rule:      "fixed scenario list (op x callback x writer x pending groups = 52 scenarios, + 20 each with a threshold setter resp. a pipeline change on the same event type as the writer, + 36 with failing re-entrant sends = 132 scenarios) repeated 4x (quick) / 60x (thorough) across GOMAXPROCS values; distinct = distinct scenario.",
	})
}
