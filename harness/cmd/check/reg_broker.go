package main

func init() {
	reg("C01", &prop{
		Pkg: "broker", Test: "TestC01", QuickBatches: 4, ThoroughBatches: 32,
		QuickTimeoutS: 300, ThoroughTimeoutS: 1500, GoMaxProcs: []int{1, 4, 16, 2}, Parallel: 8,
		Level: "exploration", DesignRef: "DESIGN.md section 4, C01",
		Technique: "runtime monitoring: recording nodes at the API boundary + hook-traced Sends, offline decomposition checker against a reference model",
		LevelText: "Exploration by runtime monitoring: thousands of generated configurations/histories x Sends (cancelled at enumerated protocol hooks, seeded yields, GOMAXPROCS 1/2/4/16) are executed on the real Broker; an oracle decides for every Send whether the observed node invocations decompose into exactly the traversals the reference model demands (identity of forwarded events, logical-clock order, at-most-once). Right level because the property quantifies over configurations, histories and schedules that can only be sampled by execution.",
		LevelNote: "Trusted: harness recording nodes, reference model written from the property text, Go runtime. Schedules are sampled, not enumerated; held = no refuting execution among those observed.",
		Rule:      "seeded random configurations: 1..3 event types, pipelines built by a random registration history (register/overwrite/remove/remove+nodes/re-register node) replayed on a reference model, 2..5 recording nodes per pipeline drawn from 7 shared ids, behaviours pass/replace/drop/error chosen per (node object, provenance); 1..3 Sends per type incl. an unregistered type, context never cancelled / cancelled before the call / cancelled inside the k-th protocol hook, seeded yields at hooks; oracle = existence of a decomposition of the observed node invocations into the model's expected traversals (pointer identity + logical-clock order). A case counts as non-trivial when the sent type has >=2 registered pipelines and some node id is shared; distinct = distinct (pipeline shapes with behaviours, cancelled?, #invocations).",
	})
}
