package main

func init() {
	reg("C01", &prop{
		Pkg: "broker", Test: "TestC01", QuickBatches: 4, ThoroughBatches: 32,
		QuickTimeoutS: 300, ThoroughTimeoutS: 1500, GoMaxProcs: []int{1, 4, 16, 2}, Parallel: 8,
		Level: "exploration", DesignRef: "DESIGN.md section 4, C01",
		Technique: "runtime monitoring: recording nodes at the API boundary + hook-traced Sends, offline decomposition checker against a reference model",
		LevelText: "Exploration by runtime monitoring: thousands of generated configurations/histories x Sends (cancelled at enumerated protocol hooks, seeded yields, GOMAXPROCS 1/2/4/16) are executed on the real Broker; an oracle decides for every Send whether the observed node invocations decompose into exactly the traversals the reference model demands (identity of forwarded events, logical-clock order, at-most-once). Right level because the property quantifies over configurations, histories and schedules that can only be sampled by execution.",
		LevelNote: "Trusted: harness recording nodes, reference model written from the property text, Go runtime. Schedules are sampled, not enumerated; held = no refuting execution among those observed.",
		Rule:      "seeded random configurations: 1..3 event types, pipelines built by a random registration history (register/overwrite/remove/remove+nodes/re-register node) replayed on a reference model, 2..5 recording nodes per pipeline drawn from 7 shared ids, behaviours pass/replace/drop/error chosen per (node object, provenance); 1..3 Sends per type incl. an unregistered type, context never cancelled / cancelled before the call / cancelled inside the k-th protocol hook, seeded yields at hooks; oracle = existence of a decomposition of the observed node invocations into the model's expected traversals (pointer identity + logical-clock order). A case counts as non-trivial when the sent type has >=2 registered pipelines and some node id is shared; distinct = distinct (pipeline shapes with behaviours, cancelled?, #invocations).",
	})
}

func init() {
	reg("C02", &prop{
		Pkg: "broker", Test: "TestC02", QuickBatches: 8, ThoroughBatches: 48,
		QuickTimeoutS: 300, ThoroughTimeoutS: 2400, GoMaxProcs: []int{4, 1, 16, 2}, Parallel: 8,
		Level: "fault_enumeration", DesignRef: "DESIGN.md section 4, C02",
		Technique: "runtime monitoring with cancel-point enumeration: every outcome vector (success/filtered/error per pipeline, n<=3) x thresholds, the context cancelled synchronously inside every protocol hook of the dispatch; Status/error compared with the node log and a threshold model",
		LevelText: "Fault enumeration by execution: for every outcome vector of up to 3 pipelines (exhaustive; n=4 sampled in the thorough tier), shared and separate sinks, and threshold pairs in 0..n+1, Send is executed once uncancelled to learn its hook trace and then once per protocol hook with the context cancelled inside that hook (plus before the call). An oracle compares Complete/CompleteSinks/Warnings/err with what the recording nodes really returned and with the thresholds in force. Random registry configurations and random setter/getter/Send sequences over three types cover sharing and the per-type threshold model.",
		LevelNote: "Trusted: harness recording nodes and the reference model; cancel points are those reachable through the verif hooks in graph.go (all suspension points of the protocol). Goroutine schedules between hooks are sampled (seeded yields, GOMAXPROCS 1/2/4/16).",
		Rule:      "part A: all outcome vectors over {success, filtered, error at filter, error at sink, error at formatter} for 0..3 pipelines (x shared sink) x threshold pairs, each also run with the context cancelled at every hook hit; part B: random configurations from C01's generator with random thresholds and random cancel points; part C: random threshold setter/getter/Send histories over 3 types. Non-trivial = a Send over >=1 pipelines with its (vector, thresholds, cancel point) or (history) signature; distinct signatures are counted.",
	})
	reg("C03", &prop{
		Pkg: "broker", Test: "TestC03", QuickBatches: 8, ThoroughBatches: 48,
		QuickTimeoutS: 400, ThoroughTimeoutS: 2400, GoMaxProcs: []int{4, 2, 16, 1}, Parallel: 8,
		Level: "fault_enumeration", DesignRef: "DESIGN.md section 4, C03",
		Technique: "runtime monitoring: gated (blocking) recording nodes, cancellation injected at every protocol hook, goroutine-dump inspector for leaks and blocked-state witnesses, watchdog with three-valued verdict",
		LevelText: "Fault enumeration by execution: configurations of <=3 pipelines x <=3 inner nodes (+formatter, sink) with outcomes pass/replace/drop/error/block; for each, Send is run never-cancelled, cancelled before the call and cancelled inside each hook hit of the dispatch protocol (all hits in the thorough tier, a seeded sample of 6 in the quick tier), with blocking nodes held at harness gates. Decided at the boundary: Send must return while the gates are still closed once cancelled, must not return before all pipelines finished when never cancelled, and after the gates open no goroutine with graph.process/doProcess frames may remain (two goroutine dumps). Panics end the child process and are reported by the driver.",
		LevelNote: "Trusted: goroutine dump parsing, gates. 'Promptly' is decided by a gate (Send must return before the harness opens it), never by a tuned duration; watchdog 10 s => inconclusive unless the goroutine is provably parked in the library.",
		Rule:      "seeded configurations (1..3 pipelines, 0..2 filters each incl. a shared filter, formatter, sink; ~25% of nodes block at a gate) x cancel points {before call, never, k-th hook hit}; seeded yields at hooks; non-trivial = configuration with a blocking node or a cancel point; distinct = (configuration, hook at which the cancel landed).",
	})
}
