// Command check is the driver of every registered check: it rebuilds the
// property's monitor from /repo's working tree (hooks on), runs it as child
// processes (one per batch), parses race-detector logs and crashes, classifies
// violations against known_findings.json, writes evidence/<id>.json and prints
// VIOLATION / KNOWN-FINDING lines.  Exit: 0 held on what was observed,
// 1 violation, 2 the check itself could not decide anything (broken / inconclusive).
package main

import (
	"bytes"
	"encoding/json"
	"flag"
	"fmt"
	"os"
	"os/exec"
	"path/filepath"
	"regexp"
	"runtime"
	"sort"
	"strconv"
	"strings"
	"sync"
	"time"

	"verifharness/internal/rt"
)

// verifRoot is /verif; background sweeps started with `vp run` set VERIF_ROOT to their snapshot so
// that they neither overwrite the evidence nor share build output with the working copy.
var verifRoot = func() string {
	if v := os.Getenv("VERIF_ROOT"); v != "" {
		return v
	}
	return "/verif"
}()

// repoRoot is the tree under test: /repo, or a scratch copy (development aid for
// trying seeded changes without touching /repo; evidence is not written then).
var repoRoot = "/repo"
var altTag = ""

type findings struct {
	Known []struct {
		Property string `json:"property"`
		Key      string `json:"key"`
		What     string `json:"what"`
	} `json:"known"`
	Fixed []map[string]string `json:"fixed"`
}

type violation struct {
	rt.Violation
	Batch int    `json:"batch"`
	Case  string `json:"case,omitempty"`
	Log   string `json:"log,omitempty"`
}

func main() {
	id := flag.String("id", "", "property id (C01..C20)")
	tier := flag.String("tier", os.Getenv("VERIF_TIER"), "quick|thorough")
	replay := flag.String("replay", "", "replay file: re-run the batch that produced it")
	keep := flag.Bool("keep", false, "keep the run directory")
	onlyBatch := flag.Int("batch", -1, "run only this batch")
	manifest := flag.Bool("write-manifest", false, "write /verif/MANIFEST.json from the registered checks")
	classify := flag.String("classify", "", "debug: classify a child output file")
	flag.Parse()
	if *classify != "" {
		b, _ := os.ReadFile(*classify)
		v, inc := classifyCrash(string(b), 124, false)
		fmt.Printf("violation=%+v inconclusive=%q\n", v, inc)
		return
	}
	if *manifest {
		writeManifest()
		return
	}
	if *tier != "thorough" {
		*tier = "quick"
	}
	seed := int64(1)
	if v := os.Getenv("VERIF_SEED"); v != "" {
		if n, err := strconv.ParseInt(v, 10, 64); err == nil {
			seed = n
		}
	}
	if *replay != "" {
		b, err := os.ReadFile(*replay)
		if err != nil {
			fatal2("cannot read replay file: %v", err)
		}
		var rp struct {
			Property string `json:"property"`
			Seed     int64  `json:"seed"`
			Tier     string `json:"tier"`
			Batch    int    `json:"batch"`
		}
		if err := json.Unmarshal(b, &rp); err != nil {
			fatal2("bad replay file: %v", err)
		}
		*id, seed, *tier, *onlyBatch = rp.Property, rp.Seed, rp.Tier, rp.Batch
	}
	p, ok := props[*id]
	if !ok {
		fatal2("unknown property %q", *id)
	}
	if v := os.Getenv("VERIF_REPO"); v != "" && v != "/repo" {
		repoRoot = strings.TrimRight(v, "/")
		altTag = fmt.Sprintf("-alt%x", rt.HashString(repoRoot)&0xffffff)
	}
	os.Exit(runCheck(*id, p, *tier, seed, *onlyBatch, *keep, *replay != ""))
}

func fatal2(format string, a ...any) {
	fmt.Fprintf(os.Stderr, "check: "+format+"\n", a...)
	os.Exit(2)
}

func goEnv() []string {
	env := os.Environ()
	env = append(env, "GOFLAGS=-mod=mod", "GOPROXY=off", "GOSUMDB=off", "GOTOOLCHAIN=local")
	return env
}

func build(p *prop, buildDir string) (string, map[string]string, error) {
	harness := filepath.Join(verifRoot, "harness")
	name := p.Pkg + altTag
	var modArgs []string
	if altTag != "" {
		gm, err := os.ReadFile(filepath.Join(harness, "go.mod"))
		if err != nil {
			return "", nil, err
		}
		mf := filepath.Join(buildDir, "go"+altTag+".mod")
		txt := strings.ReplaceAll(string(gm), "=> /repo", "=> "+repoRoot)
		if err := os.WriteFile(mf, []byte(txt), 0o644); err != nil {
			return "", nil, err
		}
		gs, _ := os.ReadFile(filepath.Join(harness, "go.sum"))
		os.WriteFile(filepath.Join(buildDir, "go"+altTag+".sum"), gs, 0o644)
		modArgs = []string{"-modfile=" + mf}
	}
	args := append([]string{"test", "-c", "-tags", "verif", "-vet=off"}, modArgs...)
	if p.Race {
		args = append(args, "-race")
		name += "-race"
	}
	bin := filepath.Join(buildDir, name+".test")
	args = append(args, "-o", bin, "./props/"+p.Pkg)
	cmd := exec.Command("go", args...)
	cmd.Dir = harness
	cmd.Env = goEnv()
	if out, err := cmd.CombinedOutput(); err != nil {
		return "", nil, fmt.Errorf("go %s: %v\n%s", strings.Join(args, " "), err, out)
	}
	aux := map[string]string{}
	for _, a := range p.Aux {
		abin := filepath.Join(buildDir, a+altTag)
		args := append(append([]string{"build", "-tags", "verif"}, modArgs...), "-o", abin, "./cmd/"+a)
		cmd := exec.Command("go", args...)
		cmd.Dir = harness
		cmd.Env = goEnv()
		if out, err := cmd.CombinedOutput(); err != nil {
			return "", nil, fmt.Errorf("go %s: %v\n%s", strings.Join(args, " "), err, out)
		}
		aux[a] = abin
	}
	return bin, aux, nil
}

func runCheck(id string, p *prop, tier string, seed int64, onlyBatch int, keep, isReplay bool) int {
	start := time.Now()
	buildDir := filepath.Join(verifRoot, ".build")
	os.MkdirAll(buildDir, 0o755)
	os.MkdirAll(filepath.Join(verifRoot, "evidence"), 0o755)
	os.MkdirAll(filepath.Join(verifRoot, "replays"), 0o755)

	bin, aux, err := build(p, buildDir)
	if err != nil {
		fmt.Fprintf(os.Stderr, "check %s: build failed (harness or /repo does not compile):\n%v\n", id, err)
		return 2
	}
	runDir, err := os.MkdirTemp(buildDir, "run-"+id+"-")
	if err != nil {
		fatal2("%v", err)
	}
	if !keep {
		defer os.RemoveAll(runDir)
	}

	nb := p.QuickBatches
	timeout := p.QuickTimeoutS
	scale := 1
	if tier == "thorough" {
		nb = p.ThoroughBatches
		timeout = p.ThoroughTimeoutS
		if p.ThoroughScale > 1 {
			scale = p.ThoroughScale
			timeout *= scale
		}
	}
	if nb < 1 {
		nb = 1
	}
	if timeout == 0 {
		timeout = 600
	}
	procs := p.GoMaxProcs
	if len(procs) == 0 {
		procs = []int{runtime.NumCPU()}
	}
	par := p.Parallel
	if par <= 0 {
		par = 8
	}

	type job struct{ b int }
	jobs := make(chan job)
	var wg sync.WaitGroup
	exit := make([]int, nb)
	for w := 0; w < par; w++ {
		wg.Add(1)
		go func() {
			defer wg.Done()
			for j := range jobs {
				gmp := procs[j.b%len(procs)]
				args := []string{"-s", "QUIT", "-k", "20", strconv.Itoa(timeout), bin,
					"-test.run", "^" + p.Test + "$", "-test.count", "1", "-test.timeout", "0", "-test.v"}
				cmd := exec.Command("timeout", args...)
				cmd.Dir = runDir
				env := append(os.Environ(),
					"VERIF_PROP="+id,
					"VERIF_SEED="+strconv.FormatInt(seed, 10),
					"VERIF_TIER="+tier,
					fmt.Sprintf("VERIF_SCALE=%d", scale),
					"VERIF_BATCH="+strconv.Itoa(j.b),
					"VERIF_NBATCH="+strconv.Itoa(nb),
					"VERIF_OUT="+runDir,
					"GOMAXPROCS="+strconv.Itoa(gmp),
					"GOTRACEBACK=all",
					"TMPDIR="+runDir,
					fmt.Sprintf("GORACE=halt_on_error=0 history_size=5 log_path=%s/race-b%d", runDir, j.b),
				)
				for k, v := range aux {
					env = append(env, "VERIF_AUX_"+strings.ToUpper(k)+"="+v)
				}
				cmd.Env = env
				out, _ := os.Create(filepath.Join(runDir, fmt.Sprintf("batch-%d.out", j.b)))
				cmd.Stdout, cmd.Stderr = out, out
				err := cmd.Run()
				out.Close()
				if err != nil {
					if ee, ok := err.(*exec.ExitError); ok {
						exit[j.b] = ee.ExitCode()
					} else {
						exit[j.b] = -1
					}
				}
			}
		}()
	}
	for b := 0; b < nb; b++ {
		if onlyBatch >= 0 && b != onlyBatch {
			continue
		}
		jobs <- job{b}
	}
	close(jobs)
	wg.Wait()

	// ---- merge ----------------------------------------------------------
	var (
		evals        int64
		sigs         = map[uint64]struct{}{}
		samples      []any
		viols        []violation
		inconclusive []string
		counters     = map[string]int64{}
		sets         = map[string]map[string]struct{}{}
		finished     int
		ran          int
		raceTotal    int
		raceLib      int
		harnessRace  []string
		gmpSeen      = map[int]bool{}
	)
	for b := 0; b < nb; b++ {
		if onlyBatch >= 0 && b != onlyBatch {
			continue
		}
		ran++
		outText, _ := os.ReadFile(filepath.Join(runDir, fmt.Sprintf("batch-%d.out", b)))
		progress, _ := os.ReadFile(filepath.Join(runDir, fmt.Sprintf("batch-%d.progress", b)))
		curCase := strings.TrimSpace(string(progress))
		var res rt.Result
		if rb, err := os.ReadFile(filepath.Join(runDir, fmt.Sprintf("batch-%d.json", b))); err == nil {
			if err := json.Unmarshal(rb, &res); err != nil {
				inconclusive = append(inconclusive, fmt.Sprintf("batch %d: unreadable result: %v", b, err))
			}
		}
		if !res.Finished {
			// partial result of a batch that crashed or was stopped: its violations still count
			for _, v := range res.Violations {
				viols = append(viols, violation{Violation: v, Batch: b})
			}
		}
		if res.Finished {
			finished++
			evals += res.Evaluations
			for _, s := range res.Sigs {
				sigs[s] = struct{}{}
			}
			for _, s := range res.Samples {
				if len(samples) < 5 {
					samples = append(samples, s)
				}
			}
			for _, v := range res.Violations {
				viols = append(viols, violation{Violation: v, Batch: b})
			}
			for _, s := range res.Inconclusive {
				inconclusive = append(inconclusive, fmt.Sprintf("batch %d: %s", b, s))
			}
			for k, v := range res.Counters {
				counters[k] += v
			}
			for k, l := range res.Sets {
				if sets[k] == nil {
					sets[k] = map[string]struct{}{}
				}
				for _, e := range l {
					sets[k][e] = struct{}{}
				}
			}
			gmpSeen[res.GoMaxProcs] = true
		}
		// crashes / hangs
		raceLogs, _ := filepath.Glob(filepath.Join(runDir, fmt.Sprintf("race-b%d.*", b)))
		if res.Finished && exit[b] != 0 && len(raceLogs) > 0 && !strings.Contains(string(outText), "panic:") && !strings.Contains(string(outText), "fatal error:") {
			// the test binary exits non-zero when the race detector reported; the reports are read below
		} else if !res.Finished || exit[b] != 0 {
			v, inc := classifyCrash(string(outText), exit[b], res.Finished)
			if v != nil {
				v.Batch, v.Case = b, curCase
				v.Log = tail(string(outText), 6000)
				viols = append(viols, *v)
			} else if inc != "" {
				inconclusive = append(inconclusive, fmt.Sprintf("batch %d: %s (case: %s)", b, inc, curCase))
			}
		}
		// race logs
		logs, _ := filepath.Glob(filepath.Join(runDir, fmt.Sprintf("race-b%d.*", b)))
		for _, lf := range logs {
			txt, _ := os.ReadFile(lf)
			for _, rep := range parseRaces(string(txt)) {
				raceTotal++
				if rep.library {
					raceLib++
					viols = append(viols, violation{Violation: rt.Violation{Key: "race:" + rep.key,
						What: "data race reported by the race detector: " + rep.key, Witness: rep.text}, Batch: b, Case: curCase})
				} else {
					harnessRace = append(harnessRace, rep.text)
				}
			}
		}
	}

	// ---- classify against known findings -------------------------------------
	var kf findings
	if b, err := os.ReadFile(filepath.Join(verifRoot, "known_findings.json")); err == nil {
		if err := json.Unmarshal(b, &kf); err != nil {
			fatal2("known_findings.json: %v", err)
		}
	}
	known := map[string]string{}
	for _, k := range kf.Known {
		if k.Property == id {
			known[k.Key] = k.What
		}
	}
	knownHit := map[string]int{}
	newByKey := map[string][]violation{}
	var keys []string
	for _, v := range viols {
		if _, ok := known[v.Key]; ok {
			knownHit[v.Key]++
			continue
		}
		if _, seen := newByKey[v.Key]; !seen {
			keys = append(keys, v.Key)
		}
		newByKey[v.Key] = append(newByKey[v.Key], v)
	}
	sort.Strings(keys)

	// ---- evidence ---------------------------------------------------------------
	cov := map[string]any{
		"evaluations":         evals,
		"distinct_nontrivial": len(sigs),
		"rule":                p.Rule,
		"samples":             samples,
		"exhaustive":          false,
		"batches_run":         ran,
		"batches_finished":    finished,
		"inconclusive":        inconclusive,
		"known_findings_hit":  knownHit,
		"race_detector":       p.Race,
	}
	if p.Race {
		cov["race_reports_total"] = raceTotal
		cov["race_reports_library"] = raceLib
	}
	var gl []int
	for g := range gmpSeen {
		gl = append(gl, g)
	}
	sort.Ints(gl)
	cov["gomaxprocs"] = gl
	for k, v := range counters {
		cov[k] = v
	}
	for k, s := range sets {
		cov["distinct_"+k] = len(s)
		if len(s) <= 40 {
			var l []string
			for e := range s {
				l = append(l, e)
			}
			sort.Strings(l)
			cov[k] = l
		}
	}
	ev := map[string]any{
		"property_id": id,
		"tier":        tier,
		"seed":        seed,
		"level":       p.Level,
		"coverage":    cov,
		"assumptions": p.Assumptions,
		"wall_s":      time.Since(start).Seconds(),
		"violations":  len(viols) - sumVals(knownHit),
	}
	if !isReplay && altTag == "" {
		eb, _ := json.MarshalIndent(ev, "", " ")
		if err := os.WriteFile(filepath.Join(verifRoot, "evidence", id+".json"), append(eb, '\n'), 0o644); err != nil {
			fatal2("cannot write evidence: %v", err)
		}
	}

	// ---- report -----------------------------------------------------------------
	fmt.Printf("check %s tier=%s seed=%d: batches=%d/%d evaluations=%d distinct_nontrivial=%d wall=%.1fs\n",
		id, tier, seed, finished, ran, evals, len(sigs), time.Since(start).Seconds())
	var ck []string
	for k := range counters {
		ck = append(ck, k)
	}
	sort.Strings(ck)
	for _, k := range ck {
		fmt.Printf("  %s=%d\n", k, counters[k])
	}
	var sk []string
	for k := range sets {
		sk = append(sk, k)
	}
	sort.Strings(sk)
	for _, k := range sk {
		fmt.Printf("  distinct %s=%d\n", k, len(sets[k]))
	}
	if p.Race {
		fmt.Printf("  race reports: total=%d library=%d\n", raceTotal, raceLib)
	}
	for _, s := range inconclusive {
		fmt.Printf("INCONCLUSIVE: property=%s %s\n", id, s)
	}
	var hk []string
	for k := range knownHit {
		hk = append(hk, k)
	}
	sort.Strings(hk)
	for _, k := range hk {
		fmt.Printf("KNOWN-FINDING: property=%s %s [key=%s, seen %d times]\n", id, known[k], k, knownHit[k])
	}
	rc := 0
	for i, k := range keys {
		vs := newByKey[k]
		rp := map[string]any{
			"property": id, "seed": seed, "tier": tier, "batch": vs[0].Batch, "key": k,
			"what": vs[0].What, "occurrences": len(vs), "witnesses": vs,
			"replay_cmd": fmt.Sprintf("cd /verif/harness && VERIF_SEED=%d go run ./cmd/check -id %s -tier %s -batch %d", seed, id, tier, vs[0].Batch),
		}
		path := filepath.Join(verifRoot, "replays", fmt.Sprintf("%s-%d-%s-%d.json", id, seed, tier, i))
		b, _ := json.MarshalIndent(rp, "", " ")
		os.WriteFile(path, b, 0o644)
		fmt.Printf("VIOLATION property=%s replay=%s\n", id, path)
		fmt.Printf("  key=%s occurrences=%d: %s\n", k, len(vs), vs[0].What)
		rc = 1
	}
	if rc == 1 {
		return 1
	}
	if len(harnessRace) > 0 {
		fmt.Fprintf(os.Stderr, "check %s: %d race report(s) with harness frames only - the harness is broken:\n%s\n", id, len(harnessRace), harnessRace[0])
		return 2
	}
	if len(samples) == 0 {
		fmt.Fprintf(os.Stderr, "check %s: no sample case was recorded (evidence would be invalid)\n", id)
		return 2
	}
	if finished == 0 || evals == 0 || len(sigs) < 2 {
		fmt.Fprintf(os.Stderr, "check %s: nothing decided (finished batches=%d evaluations=%d distinct=%d)\n", id, finished, evals, len(sigs))
		return 2
	}
	if finished*2 < ran {
		fmt.Fprintf(os.Stderr, "check %s: more than half of the batches were inconclusive\n", id)
		return 2
	}
	return 0
}

func sumVals(m map[string]int) int {
	n := 0
	for _, v := range m {
		n += v
	}
	return n
}

func tail(s string, n int) string {
	if len(s) <= n {
		return s
	}
	return "..." + s[len(s)-n:]
}

var digits = regexp.MustCompile(`0x[0-9a-f]+|\d+`)

// classifyCrash turns the output of a child that did not finish into a
// violation (panic, fatal error, provable hang) or an inconclusive reason.
func classifyCrash(out string, code int, finished bool) (*violation, string) {
	lines := strings.Split(out, "\n")
	for i, l := range lines {
		if strings.HasPrefix(l, "panic: ") || strings.HasPrefix(l, "fatal error: ") {
			if strings.Contains(l, "test timed out") {
				break
			}
			msg := digits.ReplaceAllString(l, "N")
			if len(msg) > 120 {
				msg = msg[:120]
			}
			frame := innermostRepoFrame(lines[i:])
			return &violation{Violation: rt.Violation{Key: "crash:" + msg + "@" + frame,
				What: "process-fatal " + l + " (innermost library frame: " + frame + ")"}}, ""
		}
	}
	if strings.Contains(out, "SIGQUIT") || code == 124 || code == 137 {
		gs := rt.ParseGoroutines(out[strings.Index(out+"SIGQUIT", "SIGQUIT"):])
		runnable := 0
		var parkedLib []string
		for _, g := range gs {
			if strings.HasPrefix(g.State, "running") || strings.HasPrefix(g.State, "runnable") || strings.HasPrefix(g.State, "syscall") || strings.HasPrefix(g.State, "sleep") {
				if !g.Has("os/signal") && !g.Has("runtime.ensureSigM") {
					runnable++
				}
				continue
			}
			if g.Parked() {
				for _, f := range g.Frames {
					if strings.Contains(f, "github.com/hashicorp/eventlogger") {
						parkedLib = append(parkedLib, g.State+":"+shortFunc(f))
						break
					}
				}
			}
		}
		if runnable == 0 && len(parkedLib) > 0 {
			sort.Strings(parkedLib)
			return &violation{Violation: rt.Violation{Key: "hang:" + parkedLib[0],
				What: fmt.Sprintf("child process hung with no runnable goroutine; %d goroutine(s) parked inside the library, e.g. %s", len(parkedLib), parkedLib[0])}}, ""
		}
		return nil, fmt.Sprintf("watchdog: child stopped by timeout (exit %d, runnable goroutines=%d)", code, runnable)
	}
	if !finished {
		return nil, fmt.Sprintf("child exited with code %d without a result: %s", code, tail(out, 400))
	}
	if code != 0 {
		// the monitor itself failed an internal assertion (t.Fatal): broken check
		return nil, fmt.Sprintf("child exited with code %d: %s", code, tail(out, 400))
	}
	return nil, ""
}

func shortFunc(f string) string {
	f = strings.TrimSuffix(f, "()")
	f = strings.Replace(f, "github.com/hashicorp/eventlogger/formatter_filters/", "", 1)
	f = strings.Replace(f, "github.com/hashicorp/eventlogger/filters/", "", 1)
	f = strings.Replace(f, "github.com/hashicorp/eventlogger/sinks/", "", 1)
	f = strings.Replace(f, "github.com/hashicorp/", "", 1)
	return f
}

func innermostRepoFrame(lines []string) string {
	for i := 1; i < len(lines); i++ {
		l := strings.TrimSpace(lines[i])
		if strings.HasPrefix(l, repoRoot+"/") && i > 0 {
			fn := strings.TrimSpace(lines[i-1])
			if j := strings.LastIndex(fn, "("); j > 0 {
				fn = fn[:j]
			}
			return shortFunc(fn)
		}
		if strings.HasPrefix(lines[i], "goroutine ") && i > 2 && strings.Contains(lines[i], "[") && !strings.Contains(lines[i], "running") {
			break
		}
	}
	return "none"
}

type raceReport struct {
	key     string
	library bool
	text    string
}

var accessHead = regexp.MustCompile(`^(Write|Read|Previous write|Previous read|Atomic write|Atomic read|Previous atomic write|Previous atomic read) at `)

func parseRaces(log string) []raceReport {
	var out []raceReport
	for _, blk := range strings.Split(log, "==================") {
		if !strings.Contains(blk, "WARNING: DATA RACE") {
			continue
		}
		var fns []string
		lib := false
		for _, sec := range strings.Split(blk, "\n\n") {
			ls := strings.Split(strings.Trim(sec, "\n"), "\n")
			// the first section starts with the WARNING line
			for len(ls) > 0 && !accessHead.MatchString(ls[0]) {
				ls = ls[1:]
			}
			if len(ls) == 0 {
				continue
			}
			fn := ""
			first := ""
			for i := 1; i+1 < len(ls); i += 2 {
				f, file := strings.TrimSpace(ls[i]), strings.TrimSpace(ls[i+1])
				if first == "" {
					first = f
				}
				if strings.HasPrefix(file, repoRoot+"/") {
					fn = f
					lib = true
					break
				}
			}
			if fn == "" {
				fn = "~" + first
			}
			fns = append(fns, shortFunc(fn))
			if len(fns) == 2 {
				break
			}
		}
		sort.Strings(fns)
		out = append(out, raceReport{key: strings.Join(fns, "|"), library: lib, text: strings.TrimSpace(blk)})
	}
	return out
}

var _ = bytes.MinRead
