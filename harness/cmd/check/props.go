package main

// prop is the static description of one registered check.
type prop struct {
	Pkg              string // package under harness/props
	Test             string // test function
	Race             bool   // build with the race detector
	Aux              []string
	QuickBatches     int
	ThoroughBatches  int
	QuickTimeoutS    int // per child
	ThoroughTimeoutS int
	// ThoroughScale multiplies the PRNG-determined case counts (and the per-batch timeout) of the thorough tier
	ThoroughScale int
	GoMaxProcs    []int // rotated over batches
	Parallel      int   // children in flight
	Level         string
	LevelText     string
	LevelNote     string
	Technique     string
	DesignRef     string
	Rule          string
	Assumptions   []string
}

var commonAssumptions = []string{
	"runtime monitoring: the verdict covers only the executions produced by this run (cases are a pure function of VERIF_SEED and the tier; goroutine schedules are whatever the Go scheduler produced, perturbed by hook yields and GOMAXPROCS variation)",
	"the Go toolchain, runtime, race detector and the harness's own recording nodes/oracles are trusted",
}

var props = map[string]*prop{}

func reg(id string, p *prop) {
	p.Assumptions = append(append([]string{}, commonAssumptions...), p.Assumptions...)
	props[id] = p
}

// notApplicable lists properties that are not claimed, with the reason.
var notApplicable = map[string]string{}
