package main

func init() {
	reg("C09", &prop{
		Pkg: "enc", Test: "TestC09", QuickBatches: 8, ThoroughBatches: 64,
		QuickTimeoutS: 500, ThoroughTimeoutS: 3000, GoMaxProcs: []int{2}, Parallel: 16,
		Level: "exploration", DesignRef: "DESIGN.md section 4, C09",
		Technique: "runtime monitoring with a generated payload grammar (reflect.StructOf types with class tags, pointers, slices, typed and interface{} maps, wrapper values, hand-written Taggable maps/structs) and an independent reference classifier; every leaf carries a unique canary; the forwarded event is checked leaf by leaf (redacted / decrypts to the original / recomputed HMAC) with an independent crypto verifier and scanned for canaries; wrapper faults injected",
		LevelText: "Exploration by execution: 20 000 (quick) / 1 000 000 (thorough) payloads drawn from the shape grammar of the property (depth <= 4, every classification x operation tag spelling incl. unknown and mixed case, Taggable pointer tags at depth 1 and 2, not-found and malformed pointers) x every kind of override map over {public, sensitive, secret} x {none, redact, encrypt, hmac-sha256, bogus} x wrapper present / absent / failing at the k-th Encrypt. For every leaf a reference classifier written from the README and the statement gives KEEP / PROTECT(op) / PROTECT(any) / EITHER / PLAIN-ALLOWED; if Process returns an event every PROTECT leaf must have exactly the demanded form (verified with stdlib AES-GCM/HKDF/HMAC, not library code) and no protected canary may occur anywhere in the output; an error must come with a nil event (fail closed) and is only accepted where a step can fail; panics are violations; key-rotation payloads must be consumed.",
		LevelNote: "Trusted: the reference classifier, the independent verifier (internal/cryp), reflect-built types. Shapes the statement does not list (interface-typed struct fields, arrays, a root struct by value, nil elements in a root []*string ...) are not generated; see DESIGN.md.",
		Rule:      "PRNG-determined payloads; non-trivial = payload with >=1 PROTECT leaf; distinct = distinct type/tag shape signature. Coverage lists the root kinds produced.",
	})
	reg("C10", &prop{
		Pkg: "enc", Test: "TestC10", Race: true, QuickBatches: 8, ThoroughBatches: 64,
		QuickTimeoutS: 500, ThoroughTimeoutS: 3000, GoMaxProcs: []int{2, 4}, Parallel: 8,
		Level: "exploration", DesignRef: "DESIGN.md section 4, C10",
		Technique: "runtime monitoring with a bit-identical twin of every generated input: deep rendering of the input before/after Process, masked (shape) rendering of input vs output, path-wise comparison of public leaves, aliasing probe that mutates the output and re-checks the input; concurrent Process calls on one event under the race detector",
		LevelText: "Exploration by execution over the same generated payload space as C09: the input event is regenerated from the seed (twin) and after Process the input must render identically to the twin (payload, Type, CreatedAt, Formatted); the forwarded payload must have the same dynamic type and the same shape (container lengths, map keys, dynamic types inside interfaces, every non-string value) and every KEEP leaf must equal the original; every byte slice, string field and map of the OUTPUT is then mutated and the input must still equal the twin (detects shallow copies); with all operations overridden to none, or a nil/zero payload, the very same event must be forwarded. The same event is also handed to 4 goroutines concurrently under the race detector.",
		LevelNote: "Trusted: the deep renderer (exported fields; copystructure does not carry unexported fields, which the property does not mention). Typed nil pointers directly inside interface{} values are not generated (the deep-copy library turns them into untyped nils).",
		Rule:      "PRNG-determined payloads; non-trivial = forwarded payload with >=1 public (KEEP) leaf; distinct = distinct shape signature.",
	})
}

func init() {
	reg("C16", &prop{
		Pkg: "enc", Test: "TestC16", Race: true, QuickBatches: 6, ThoroughBatches: 48,
		QuickTimeoutS: 500, ThoroughTimeoutS: 3000, GoMaxProcs: []int{4, 2, 16}, Parallel: 8,
		Level: "exploration", DesignRef: "DESIGN.md section 4, C16",
		Technique: "runtime monitoring with an independent cryptographic verifier (stdlib AES-256-GCM, HKDF-SHA256, HMAC-SHA256, Ed25519 key derivation) over rotation histories replayed on a reference configuration; concurrent processors and rotators under the race detector with a per-value 'which configuration explains it' search and a real-time window check",
		LevelText: "Exploration by execution: sequential histories of events (with and without per-event wrapper info; byte strings incl. empty and non-UTF-8; event salt/info nil/empty/set; empty event id) interleaved with Rotate(WithWrapper/WithSalt/WithInfo subsets) and in-band rotation payloads; a reference history tracks the (wrapper key, salt, info) in force and every encrypted value must open to the original under exactly the key in force (filter key, or the per-event key re-derived from the documented recipe) and under no other key (previous keys, base key, another event id), every HMAC must equal the recomputed digest with the documented precedence of event over filter salt/info, equal inputs give equal digests, an empty event id is rejected. Concurrent part: 2..6 processors and 1..2 rotators (Rotate calls and rotation payloads, totally ordered, each installing a unique full triple): every value must verify under exactly one configuration taken as an atomic (wrapper, salt, info) triple - a mixture is a violation - and that configuration must lie in the window allowed by real time (not older than the last rotation that returned before the event started, not newer than the last one requested before it ended). Taggable maps inside the payloads carry, besides string values, []byte values selected by pointer tags (same bytes as a string twin: the digests must be equal and the ciphertext must open to the original bytes, incl. empty and non-UTF-8); and the sender of an in-band rotation payload overwrites its own salt/info buffers in half of the cases once the payload was consumed - later events must use the values the payload reported while it was processed.",
		LevelNote: "Trusted: the independent verifier, the logical clock. The per-event AES key is the Ed25519 PUBLIC key of the HKDF seed (that is what NewEventWrapper really uses).",
		Rule:      "seeded histories; every history is non-trivial; distinct = distinct history / concurrent configuration.",
	})
}
