package main

func init() {
	reg("C11", &prop{
		Pkg: "gatedp", Test: "TestC11", Race: true, QuickBatches: 8, ThoroughBatches: 48,
		QuickTimeoutS: 400, ThoroughTimeoutS: 3000, GoMaxProcs: []int{4, 2, 16}, Parallel: 8,
		Level: "exploration", DesignRef: "DESIGN.md section 4, C11",
		Technique: "runtime monitoring: a Gateable payload whose ComposeFrom records its argument lists, a recording Sender and a virtual clock around the real gated.Filter; offline conservation / exactly-once / grouping / order / destination checker over the recorded history plus a final drain; concurrent senders under the race detector",
		LevelText: "Exploration by execution: all histories up to depth 4 (quick) / 6 (thorough) over {event(id in a,b,c; flush?), non-Gateable event, event without ID, clock advance 6 s / 11 s, FlushAll, Close} x 15 configurations (Sender set/unset x composition failing at call 1..3, sending failing at call 1..2, a Gateable composite at call 1..2), and seeded random histories up to 200 steps, run on the real filter; afterwards every id gets a flush probe and the filter is closed. The checker decides from the recorded ComposeFrom argument lists and Sender calls: every accepted event is composed exactly once (unless legitimately dropped for lack of a Broker or by a reported error), every list is a maximal run of consecutive events of ONE id in arrival order, flush composites are returned to the pipeline and all others go to the Sender, composites sent are never Gateable, non-Gateable events return the same pointer, events without ID are rejected without side effect. Concurrent part: 2..8 senders (+0..2 FlushAll goroutines, advancing clock; directly and through a Broker pipeline), then drain: no duplicate, no loss, per-sender and real-time order inside every composite, under the race detector.",
		LevelNote: "Trusted: harness payload/Sender/clock. The checker is timing-agnostic on purpose (WHEN expired groups are emitted is C17's clause). The property's 'depth 7 exhaustively' is out of reach by execution (11^7 x 15 histories); exhaustive depth reached is reported.",
		Rule:      "exhaustive enumeration to depth D (each batch takes every NBatch-th history, all 15 configurations each), then PRNG-determined random histories and concurrent programs. Every history is non-trivial; distinct = distinct (configuration, step sequence).",
	})
	reg("C17", &prop{
		Pkg: "gatedp", Test: "TestC17", QuickBatches: 8, ThoroughBatches: 48,
		QuickTimeoutS: 400, ThoroughTimeoutS: 3000, GoMaxProcs: []int{2}, Parallel: 16,
		Level: "exploration", DesignRef: "DESIGN.md section 4, C17",
		Technique: "runtime monitoring against an executable timing model of the gate (virtual clock): step-by-step comparison of what the Sender received, plus flush probes on a replayed copy of the history to see what the filter still holds",
		LevelText: "Exploration by execution with a reference model: the same exhaustive (depth 4 quick / 6 thorough, 15 configurations) and random histories as C11, with 0..5 simultaneously open groups and arbitrary clock advances. After every successful Process of a Gateable event at virtual time T the Sender must have received exactly the groups whose expiry lies before T, oldest first (or nothing when no Broker is set), after every successful FlushAll/Close exactly all gated groups once in open order; and a probe - the history replayed on a fresh filter followed by a flush event per id - must return only events of unexpired groups, so nothing lingers and the events held never exceed those of unexpired groups.",
		LevelNote: "Trusted: the timing model (written from the property statement) and the virtual clock. Process calls of non-Gateable events bypass the gate entirely (C11: they pass through unchanged) and are not treated as expiry points. Only successful calls are constrained, as the statement says.",
		Rule:      "same enumeration as C11; probes after every step for exhaustive histories and for random histories of <=30 steps. Every history is non-trivial; distinct = distinct (configuration, step sequence).",
	})
}
